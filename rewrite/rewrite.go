// Package rewrite produces the go build -overlay that instruments the
// repository at check time: fs's os/ioutil/fileutil imports go to the
// simulated OS, and (mode "full") sync, sync/atomic, channel operations and go
// statements of the concurrent packages go to the cooperative scheduler's shims.
// /repo itself is never modified.
package rewrite

import (
	"bytes"
	"encoding/json"
	"fmt"
	"go/ast"
	"go/build"
	"go/parser"
	"go/printer"
	"go/token"
	"os"
	"path/filepath"
	"reflect"
	"sort"
	"strconv"
	"strings"
)

type Options struct {
	Repo   string            // /repo
	OutDir string            // where rewritten files and overlay.json go
	Mode   string            // "full" | "fsonly"
	Tags   []string          // build tags (verif)
	Extra  map[string]string // extra replacements: repo-relative path -> file with replacement content
}

// importMap[dir] = old import path -> new import path
var fsImports = map[string]string{
	"os":                                     "verif/shim/vos",
	"io/ioutil":                              "verif/shim/vioutil",
	"go.etcd.io/etcd/client/pkg/v3/fileutil": "verif/shim/vfileutil",
}

var syncImports = map[string]string{
	"sync":        "verif/shim/vsync",
	"sync/atomic": "verif/shim/vatomic",
}

// packages (repo-relative dirs) whose concurrency primitives are instrumented
var schedDirs = []string{".", "segment", "verifier", "fs"}

type Result struct {
	OverlayFile string
	Files       []string       // repo-relative paths rewritten
	Sites       map[string]int // kind -> count of rewritten sites
}

func Build(o Options) (*Result, error) {
	res := &Result{Sites: map[string]int{}}
	if err := os.MkdirAll(o.OutDir, 0o755); err != nil {
		return nil, err
	}
	replace := map[string]string{}
	dirs := map[string]bool{"fs": true}
	if o.Mode == "full" {
		for _, d := range schedDirs {
			dirs[d] = true
		}
	}
	var dirList []string
	for d := range dirs {
		dirList = append(dirList, d)
	}
	sort.Strings(dirList)
	ctx := build.Default
	ctx.BuildTags = append(ctx.BuildTags, o.Tags...)
	for _, d := range dirList {
		abs := filepath.Join(o.Repo, d)
		ents, err := os.ReadDir(abs)
		if err != nil {
			if os.IsNotExist(err) {
				continue
			}
			return nil, err
		}
		// channel-typed names of the whole package (a field declared in one file is ranged over in another)
		pkgChans := map[string]bool{}
		for round := 0; round < 2; round++ { // twice: a named channel type may be declared in a later file
			for _, e := range ents {
				n := e.Name()
				if e.IsDir() || !strings.HasSuffix(n, ".go") || strings.HasSuffix(n, "_test.go") {
					continue
				}
				if ok, err := ctx.MatchFile(abs, n); err != nil || !ok {
					continue
				}
				src := filepath.Join(abs, n)
				if x, ok := o.Extra[filepath.Join(d, n)]; ok {
					src = x
				}
				if f, err := parser.ParseFile(token.NewFileSet(), src, nil, 0); err == nil {
					tmp := &rewriter{chanNames: pkgChans}
					tmp.collectChanNames(f)
				}
			}
		}
		for _, e := range ents {
			n := e.Name()
			if e.IsDir() || !strings.HasSuffix(n, ".go") || strings.HasSuffix(n, "_test.go") {
				continue
			}
			if ok, err := ctx.MatchFile(abs, n); err != nil || !ok {
				continue
			}
			rel := filepath.Join(d, n)
			src := filepath.Join(abs, n)
			if x, ok := o.Extra[rel]; ok {
				src = x
			}
			out, changed, err := rewriteFile(src, d, o.Mode, res.Sites, pkgChans)
			if err != nil {
				return nil, fmt.Errorf("%s: %w", rel, err)
			}
			if !changed && src == filepath.Join(abs, n) {
				continue
			}
			dst := filepath.Join(o.OutDir, rel)
			if err := os.MkdirAll(filepath.Dir(dst), 0o755); err != nil {
				return nil, err
			}
			if err := os.WriteFile(dst, out, 0o644); err != nil {
				return nil, err
			}
			replace[filepath.Join(abs, n)] = dst
			res.Files = append(res.Files, rel)
		}
	}
	// extra replacements outside the instrumented dirs are passed through as-is
	for rel, x := range o.Extra {
		p := filepath.Join(o.Repo, rel)
		if _, ok := replace[p]; !ok {
			replace[p] = x
		}
	}
	js, _ := json.MarshalIndent(map[string]any{"Replace": replace}, "", " ")
	res.OverlayFile = filepath.Join(o.OutDir, "overlay.json")
	if err := os.WriteFile(res.OverlayFile, js, 0o644); err != nil {
		return nil, err
	}
	return res, nil
}

type rewriter struct {
	fset      *token.FileSet
	sites     map[string]int
	needSched bool
	chanNames map[string]bool
	err       error
	full      bool
	selSeq    int
	timeUsed  bool // a time.After / time.Sleep call was redirected: keep the time import used
}

func rewriteFile(path, dir, mode string, sites map[string]int, pkgChans map[string]bool) ([]byte, bool, error) {
	fset := token.NewFileSet()
	f, err := parser.ParseFile(fset, path, nil, parser.ParseComments)
	if err != nil {
		return nil, false, err
	}
	changed := false
	imap := map[string]string{}
	if dir == "fs" {
		for k, v := range fsImports {
			imap[k] = v
		}
	}
	full := mode == "full"
	if full {
		for k, v := range syncImports {
			imap[k] = v
		}
	}
	for _, im := range f.Imports {
		p, _ := strconv.Unquote(im.Path.Value)
		if np, ok := imap[p]; ok {
			if im.Name == nil {
				base := p[strings.LastIndex(p, "/")+1:]
				im.Name = ast.NewIdent(base)
			}
			im.Path.Value = strconv.Quote(np)
			changed = true
			sites["import:"+p]++
		}
	}
	rw := &rewriter{fset: fset, sites: sites, chanNames: map[string]bool{}, full: full}
	for k := range pkgChans {
		rw.chanNames[k] = true
	}
	if full {
		rw.collectChanNames(f)
		rw.walk(reflect.ValueOf(f))
		if rw.err != nil {
			return nil, false, rw.err
		}
		if rw.needSched {
			changed = true
			addImport(f, "vsched", "verif/shim/vsched")
		}
		if rw.timeUsed {
			// `var _ = time.Second` keeps the import used if the redirected calls were its only use
			f.Decls = append(f.Decls, &ast.GenDecl{Tok: token.VAR, Specs: []ast.Spec{&ast.ValueSpec{Names: []*ast.Ident{ast.NewIdent("_")}, Values: []ast.Expr{sel("time", "Second")}}}})
		}
	}
	if !changed {
		b, err := os.ReadFile(path)
		return b, false, err
	}
	var buf bytes.Buffer
	cfg := printer.Config{Mode: printer.UseSpaces | printer.TabIndent, Tabwidth: 8}
	if err := cfg.Fprint(&buf, fset, f); err != nil {
		return nil, false, err
	}
	return buf.Bytes(), true, nil
}

func addImport(f *ast.File, name, path string) {
	spec := &ast.ImportSpec{Name: ast.NewIdent(name), Path: &ast.BasicLit{Kind: token.STRING, Value: strconv.Quote(path)}}
	for _, d := range f.Decls {
		if gd, ok := d.(*ast.GenDecl); ok && gd.Tok == token.IMPORT {
			gd.Specs = append(gd.Specs, spec)
			if !gd.Lparen.IsValid() {
				gd.Lparen = gd.Pos()
				gd.Rparen = gd.End()
			}
			f.Imports = append(f.Imports, spec)
			return
		}
	}
	gd := &ast.GenDecl{Tok: token.IMPORT, Specs: []ast.Spec{spec}}
	f.Decls = append([]ast.Decl{gd}, f.Decls...)
	f.Imports = append(f.Imports, spec)
}

// collectChanNames gathers field / variable names declared with a channel type
// so that `range x.name` can be recognised without type checking.
func (rw *rewriter) collectChanNames(f *ast.File) {
	// named channel types: `type reportCh chan Report`
	isChan := func(e ast.Expr) bool {
		if _, ok := e.(*ast.ChanType); ok {
			return true
		}
		if id, ok := e.(*ast.Ident); ok && rw.chanNames["type:"+id.Name] {
			return true
		}
		return false
	}
	ast.Inspect(f, func(n ast.Node) bool {
		if ts, ok := n.(*ast.TypeSpec); ok {
			if _, ok := ts.Type.(*ast.ChanType); ok {
				rw.chanNames["type:"+ts.Name.Name] = true
			}
		}
		return true
	})
	ast.Inspect(f, func(n ast.Node) bool {
		switch x := n.(type) {
		case *ast.Field:
			if isChan(x.Type) {
				for _, nm := range x.Names {
					rw.chanNames[nm.Name] = true
				}
			}
		case *ast.ValueSpec:
			if x.Type != nil && isChan(x.Type) {
				for _, nm := range x.Names {
					rw.chanNames[nm.Name] = true
				}
			}
			for i, v := range x.Values {
				if isMakeChan(v) && i < len(x.Names) {
					rw.chanNames[x.Names[i].Name] = true
				}
			}
		case *ast.AssignStmt:
			for i, v := range x.Rhs {
				if isMakeChan(v) && i < len(x.Lhs) {
					if id, ok := x.Lhs[i].(*ast.Ident); ok {
						rw.chanNames[id.Name] = true
					}
					if se, ok := x.Lhs[i].(*ast.SelectorExpr); ok {
						rw.chanNames[se.Sel.Name] = true
					}
				}
			}
		}
		return true
	})
}

func isMakeChan(e ast.Expr) bool {
	c, ok := e.(*ast.CallExpr)
	if !ok || len(c.Args) == 0 {
		return false
	}
	id, ok := c.Fun.(*ast.Ident)
	if !ok || id.Name != "make" {
		return false
	}
	_, ok = c.Args[0].(*ast.ChanType)
	return ok
}

var (
	exprType = reflect.TypeOf((*ast.Expr)(nil)).Elem()
	stmtType = reflect.TypeOf((*ast.Stmt)(nil)).Elem()
	objType  = reflect.TypeOf((*ast.Object)(nil))
	scpType  = reflect.TypeOf((*ast.Scope)(nil))
)

func (rw *rewriter) walk(v reflect.Value) {
	if !v.IsValid() {
		return
	}
	switch v.Kind() {
	case reflect.Ptr:
		if v.IsNil() || v.Type() == objType || v.Type() == scpType {
			return
		}
		rw.walk(v.Elem())
	case reflect.Interface:
		if v.IsNil() {
			return
		}
		if v.CanSet() {
			if v.Type() == stmtType {
				ns := rw.preStmt(v.Interface().(ast.Stmt))
				v.Set(reflect.ValueOf(ns))
				rw.walk(v.Elem())
				return
			}
			if v.Type() == exprType {
				rw.walk(v.Elem())
				ne := rw.postExpr(v.Interface().(ast.Expr))
				v.Set(reflect.ValueOf(ne))
				return
			}
		}
		rw.walk(v.Elem())
	case reflect.Slice:
		for i := 0; i < v.Len(); i++ {
			rw.walk(v.Index(i))
		}
	case reflect.Struct:
		for i := 0; i < v.NumField(); i++ {
			f := v.Field(i)
			if f.Type() == objType || f.Type() == scpType {
				continue
			}
			rw.walk(f)
		}
	}
}

func sel(pkg, name string) ast.Expr {
	return &ast.SelectorExpr{X: ast.NewIdent(pkg), Sel: ast.NewIdent(name)}
}

func (rw *rewriter) call(name string, args ...ast.Expr) *ast.CallExpr {
	rw.needSched = true
	return &ast.CallExpr{Fun: sel("vsched", name), Args: args}
}

func isRecv(e ast.Expr) (*ast.UnaryExpr, bool) {
	for {
		p, ok := e.(*ast.ParenExpr)
		if !ok {
			break
		}
		e = p.X
	}
	u, ok := e.(*ast.UnaryExpr)
	if ok && u.Op == token.ARROW {
		return u, true
	}
	return nil, false
}

func (rw *rewriter) fail(n ast.Node, msg string) {
	if rw.err == nil {
		rw.err = fmt.Errorf("%s: unsupported construct for the scheduler shim: %s", rw.fset.Position(n.Pos()), msg)
	}
}

func (rw *rewriter) preStmt(s ast.Stmt) ast.Stmt {
	switch x := s.(type) {
	case *ast.SendStmt:
		rw.sites["send"]++
		return &ast.ExprStmt{X: rw.call("Send", x.Chan, x.Value)}
	case *ast.GoStmt:
		rw.sites["go"]++
		return rw.goStmt(x)
	case *ast.AssignStmt:
		if len(x.Lhs) == 2 && len(x.Rhs) == 1 {
			if u, ok := isRecv(x.Rhs[0]); ok {
				rw.sites["recv2"]++
				x.Rhs[0] = rw.call("Recv2", u.X)
			}
		}
		return x
	case *ast.DeclStmt:
		if gd, ok := x.Decl.(*ast.GenDecl); ok {
			for _, sp := range gd.Specs {
				if vs, ok := sp.(*ast.ValueSpec); ok && len(vs.Names) == 2 && len(vs.Values) == 1 {
					if u, ok := isRecv(vs.Values[0]); ok {
						rw.sites["recv2"]++
						vs.Values[0] = rw.call("Recv2", u.X)
					}
				}
			}
		}
		return x
	case *ast.SelectStmt:
		return rw.selectStmt(x)
	case *ast.RangeStmt:
		return rw.rangeStmt(x)
	}
	return s
}

func (rw *rewriter) postExpr(e ast.Expr) ast.Expr {
	switch x := e.(type) {
	case *ast.UnaryExpr:
		if x.Op == token.ARROW {
			rw.sites["recv"]++
			return rw.call("Recv", x.X)
		}
	case *ast.CallExpr:
		if id, ok := x.Fun.(*ast.Ident); ok && id.Name == "close" && len(x.Args) == 1 {
			rw.sites["close"]++
			return rw.call("Close", x.Args[0])
		}
		if se, ok := x.Fun.(*ast.SelectorExpr); ok && len(x.Args) == 1 {
			if pk, ok := se.X.(*ast.Ident); ok && pk.Name == "time" && (se.Sel.Name == "After" || se.Sel.Name == "Sleep") {
				rw.sites["time."+se.Sel.Name]++
				rw.timeUsed = true
				return rw.call(se.Sel.Name, x.Args[0])
			}
		}
	}
	return e
}

func simpleArg(e ast.Expr) bool {
	switch x := e.(type) {
	case *ast.BasicLit:
		return true
	case *ast.Ident:
		return true
	case *ast.SelectorExpr:
		return simpleArg(x.X)
	}
	return false
}

func (rw *rewriter) goStmt(g *ast.GoStmt) ast.Stmt {
	c := g.Call
	if fl, ok := c.Fun.(*ast.FuncLit); ok && len(c.Args) == 0 {
		return &ast.ExprStmt{X: rw.call("Go", fl)}
	}
	allSimple := true
	for _, a := range c.Args {
		if !simpleArg(a) {
			allSimple = false
		}
	}
	if allSimple && !c.Ellipsis.IsValid() {
		body := &ast.BlockStmt{List: []ast.Stmt{&ast.ExprStmt{X: c}}}
		return &ast.ExprStmt{X: rw.call("Go", &ast.FuncLit{Type: &ast.FuncType{Params: &ast.FieldList{}}, Body: body})}
	}
	// evaluate arguments now, call later
	var lhs, rhs []ast.Expr
	for i, a := range c.Args {
		id := ast.NewIdent(fmt.Sprintf("vgoArg%d", i))
		lhs = append(lhs, id)
		rhs = append(rhs, a)
		c.Args[i] = id
	}
	body := &ast.BlockStmt{List: []ast.Stmt{&ast.ExprStmt{X: c}}}
	return &ast.BlockStmt{List: []ast.Stmt{
		&ast.AssignStmt{Lhs: lhs, Tok: token.DEFINE, Rhs: rhs},
		&ast.ExprStmt{X: rw.call("Go", &ast.FuncLit{Type: &ast.FuncType{Params: &ast.FieldList{}}, Body: body})},
	}}
}

// hasPlainBreak reports whether stmts contain a break without label that would refer to the select itself.
func hasPlainBreak(stmts []ast.Stmt) bool {
	found := false
	var visit func(n ast.Node) bool
	visit = func(n ast.Node) bool {
		switch x := n.(type) {
		case *ast.ForStmt, *ast.RangeStmt, *ast.SwitchStmt, *ast.TypeSwitchStmt, *ast.SelectStmt, *ast.FuncLit:
			return false
		case *ast.BranchStmt:
			if x.Tok == token.BREAK && x.Label == nil {
				found = true
			}
		}
		return true
	}
	for _, st := range stmts {
		ast.Inspect(st, visit)
	}
	return found
}

func (rw *rewriter) selectStmt(s *ast.SelectStmt) ast.Stmt {
	var comm, def *ast.CommClause
	simple := true
	for _, c := range s.Body.List {
		cc := c.(*ast.CommClause)
		if hasPlainBreak(cc.Body) {
			simple = false
		}
		if cc.Comm == nil {
			def = cc
		} else if comm == nil {
			comm = cc
		} else {
			simple = false
		}
	}
	if comm == nil || def == nil {
		simple = false
	}
	if simple {
		if as, ok := comm.Comm.(*ast.AssignStmt); ok && as.Tok != token.DEFINE {
			simple = false
		}
	}
	if !simple {
		return rw.selectGeneral(s)
	}
	rw.sites["select"]++
	elseBlk := &ast.BlockStmt{List: def.Body}
	thenBlk := &ast.BlockStmt{List: comm.Body}
	switch c := comm.Comm.(type) {
	case *ast.SendStmt:
		return &ast.IfStmt{Cond: rw.call("TrySend", c.Chan, c.Value), Body: thenBlk, Else: elseBlk}
	case *ast.ExprStmt:
		u, ok := isRecv(c.X)
		if !ok {
			rw.fail(s, "select case is not a receive")
			return s
		}
		init := &ast.AssignStmt{Lhs: []ast.Expr{ast.NewIdent("_"), ast.NewIdent("_"), ast.NewIdent("vgot")}, Tok: token.DEFINE, Rhs: []ast.Expr{rw.call("TryRecv", u.X)}}
		return &ast.IfStmt{Init: init, Cond: ast.NewIdent("vgot"), Body: thenBlk, Else: elseBlk}
	case *ast.AssignStmt:
		u, ok := isRecv(c.Rhs[0])
		if !ok {
			rw.fail(s, "select case is not a receive")
			return s
		}
		lhs := []ast.Expr{c.Lhs[0], ast.NewIdent("_"), ast.NewIdent("vgot")}
		if len(c.Lhs) == 2 {
			lhs[1] = c.Lhs[1]
		}
		init := &ast.AssignStmt{Lhs: lhs, Tok: token.DEFINE, Rhs: []ast.Expr{rw.call("TryRecv", u.X)}}
		return &ast.IfStmt{Init: init, Cond: ast.NewIdent("vgot"), Body: thenBlk, Else: elseBlk}
	}
	rw.fail(s, "unrecognised select clause")
	return s
}

// selectGeneral handles every other select (several communication clauses, no default, assignment to existing
// variables, break inside a clause): case objects are built first, vsched.Select says which one proceeded, and
// a switch runs the bodies (an unlabelled break leaves the switch exactly as it left the select).
func (rw *rewriter) selectGeneral(s *ast.SelectStmt) ast.Stmt {
	rw.sites["select_general"]++
	rw.selSeq++
	var decls []ast.Stmt
	var args []ast.Expr
	var clauses []ast.Stmt
	hasDefault := "false"
	idx := 0
	for _, c := range s.Body.List {
		cc := c.(*ast.CommClause)
		if cc.Comm == nil {
			hasDefault = "true"
			clauses = append(clauses, &ast.CaseClause{Body: cc.Body})
			continue
		}
		name := ast.NewIdent(fmt.Sprintf("vsel%d_%d", rw.selSeq, idx))
		body := cc.Body
		switch cm := cc.Comm.(type) {
		case *ast.SendStmt:
			decls = append(decls, &ast.AssignStmt{Lhs: []ast.Expr{name}, Tok: token.DEFINE, Rhs: []ast.Expr{rw.call("SendCase", cm.Chan, cm.Value)}})
		case *ast.ExprStmt:
			u, ok := isRecv(cm.X)
			if !ok {
				rw.fail(s, "select case is not a receive")
				return s
			}
			decls = append(decls, &ast.AssignStmt{Lhs: []ast.Expr{name}, Tok: token.DEFINE, Rhs: []ast.Expr{rw.call("RecvCase", u.X)}})
		case *ast.AssignStmt:
			u, ok := isRecv(cm.Rhs[0])
			if !ok {
				rw.fail(s, "select case is not a receive")
				return s
			}
			decls = append(decls, &ast.AssignStmt{Lhs: []ast.Expr{name}, Tok: token.DEFINE, Rhs: []ast.Expr{rw.call("RecvCase", u.X)}})
			rhs := []ast.Expr{&ast.SelectorExpr{X: ast.NewIdent(name.Name), Sel: ast.NewIdent("V")}}
			if len(cm.Lhs) == 2 {
				rhs = append(rhs, &ast.SelectorExpr{X: ast.NewIdent(name.Name), Sel: ast.NewIdent("OK")})
			}
			body = append([]ast.Stmt{&ast.AssignStmt{Lhs: cm.Lhs, Tok: cm.Tok, Rhs: rhs}}, body...)
		default:
			rw.fail(s, "unrecognised select clause")
			return s
		}
		clauses = append(clauses, &ast.CaseClause{List: []ast.Expr{&ast.BasicLit{Kind: token.INT, Value: fmt.Sprint(idx)}}, Body: body})
		args = append(args, ast.NewIdent(name.Name))
		idx++
	}
	sw := &ast.SwitchStmt{Tag: rw.call("Select", append([]ast.Expr{ast.NewIdent(hasDefault)}, args...)...), Body: &ast.BlockStmt{List: clauses}}
	return &ast.BlockStmt{List: append(decls, sw)}
}

func (rw *rewriter) rangeStmt(r *ast.RangeStmt) ast.Stmt {
	name := ""
	switch x := r.X.(type) {
	case *ast.Ident:
		name = x.Name
	case *ast.SelectorExpr:
		name = x.Sel.Name
	}
	if name == "" || !rw.chanNames[name] {
		return r
	}
	rw.sites["rangechan"]++
	// for { v, ok := vsched.Recv2(ch); if !ok { break }; body }
	var key ast.Expr = ast.NewIdent("_")
	if r.Key != nil {
		key = r.Key
	}
	okId := ast.NewIdent("vok")
	tok := token.DEFINE
	recv := &ast.AssignStmt{Lhs: []ast.Expr{key, okId}, Tok: tok, Rhs: []ast.Expr{rw.call("Recv2", r.X)}}
	brk := &ast.IfStmt{Cond: &ast.UnaryExpr{Op: token.NOT, X: okId}, Body: &ast.BlockStmt{List: []ast.Stmt{&ast.BranchStmt{Tok: token.BREAK}}}}
	body := &ast.BlockStmt{List: append([]ast.Stmt{recv, brk}, r.Body.List...)}
	return &ast.ForStmt{Body: body}
}

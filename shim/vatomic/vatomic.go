// Package vatomic mirrors sync/atomic; every operation is a scheduling point
// when a vsched scheduler is installed.
package vatomic

import (
	"sync/atomic"
	"unsafe"

	"verif/shim/vsched"
)

func pt(d string) { vsched.Yield(d) }

func LoadInt32(addr *int32) int32          { pt("atomic.Load"); return atomic.LoadInt32(addr) }
func StoreInt32(addr *int32, v int32)      { pt("atomic.Store"); atomic.StoreInt32(addr, v) }
func AddInt32(addr *int32, d int32) int32  { pt("atomic.Add"); return atomic.AddInt32(addr, d) }
func SwapInt32(addr *int32, v int32) int32 { pt("atomic.Swap"); return atomic.SwapInt32(addr, v) }
func CompareAndSwapInt32(addr *int32, o, n int32) bool {
	pt("atomic.CAS")
	return atomic.CompareAndSwapInt32(addr, o, n)
}

type Int32 struct{ v atomic.Int32 }

func (x *Int32) Load() int32                    { pt("atomic.Load"); return x.v.Load() }
func (x *Int32) Store(v int32)                  { pt("atomic.Store"); x.v.Store(v) }
func (x *Int32) Add(d int32) int32              { pt("atomic.Add"); return x.v.Add(d) }
func (x *Int32) Swap(v int32) int32             { pt("atomic.Swap"); return x.v.Swap(v) }
func (x *Int32) CompareAndSwap(o, n int32) bool { pt("atomic.CAS"); return x.v.CompareAndSwap(o, n) }

func LoadInt64(addr *int64) int64          { pt("atomic.Load"); return atomic.LoadInt64(addr) }
func StoreInt64(addr *int64, v int64)      { pt("atomic.Store"); atomic.StoreInt64(addr, v) }
func AddInt64(addr *int64, d int64) int64  { pt("atomic.Add"); return atomic.AddInt64(addr, d) }
func SwapInt64(addr *int64, v int64) int64 { pt("atomic.Swap"); return atomic.SwapInt64(addr, v) }
func CompareAndSwapInt64(addr *int64, o, n int64) bool {
	pt("atomic.CAS")
	return atomic.CompareAndSwapInt64(addr, o, n)
}

type Int64 struct{ v atomic.Int64 }

func (x *Int64) Load() int64                    { pt("atomic.Load"); return x.v.Load() }
func (x *Int64) Store(v int64)                  { pt("atomic.Store"); x.v.Store(v) }
func (x *Int64) Add(d int64) int64              { pt("atomic.Add"); return x.v.Add(d) }
func (x *Int64) Swap(v int64) int64             { pt("atomic.Swap"); return x.v.Swap(v) }
func (x *Int64) CompareAndSwap(o, n int64) bool { pt("atomic.CAS"); return x.v.CompareAndSwap(o, n) }

func LoadUint32(addr *uint32) uint32           { pt("atomic.Load"); return atomic.LoadUint32(addr) }
func StoreUint32(addr *uint32, v uint32)       { pt("atomic.Store"); atomic.StoreUint32(addr, v) }
func AddUint32(addr *uint32, d uint32) uint32  { pt("atomic.Add"); return atomic.AddUint32(addr, d) }
func SwapUint32(addr *uint32, v uint32) uint32 { pt("atomic.Swap"); return atomic.SwapUint32(addr, v) }
func CompareAndSwapUint32(addr *uint32, o, n uint32) bool {
	pt("atomic.CAS")
	return atomic.CompareAndSwapUint32(addr, o, n)
}

type Uint32 struct{ v atomic.Uint32 }

func (x *Uint32) Load() uint32                    { pt("atomic.Load"); return x.v.Load() }
func (x *Uint32) Store(v uint32)                  { pt("atomic.Store"); x.v.Store(v) }
func (x *Uint32) Add(d uint32) uint32             { pt("atomic.Add"); return x.v.Add(d) }
func (x *Uint32) Swap(v uint32) uint32            { pt("atomic.Swap"); return x.v.Swap(v) }
func (x *Uint32) CompareAndSwap(o, n uint32) bool { pt("atomic.CAS"); return x.v.CompareAndSwap(o, n) }

func LoadUint64(addr *uint64) uint64           { pt("atomic.Load"); return atomic.LoadUint64(addr) }
func StoreUint64(addr *uint64, v uint64)       { pt("atomic.Store"); atomic.StoreUint64(addr, v) }
func AddUint64(addr *uint64, d uint64) uint64  { pt("atomic.Add"); return atomic.AddUint64(addr, d) }
func SwapUint64(addr *uint64, v uint64) uint64 { pt("atomic.Swap"); return atomic.SwapUint64(addr, v) }
func CompareAndSwapUint64(addr *uint64, o, n uint64) bool {
	pt("atomic.CAS")
	return atomic.CompareAndSwapUint64(addr, o, n)
}

type Uint64 struct{ v atomic.Uint64 }

func (x *Uint64) Load() uint64                    { pt("atomic.Load"); return x.v.Load() }
func (x *Uint64) Store(v uint64)                  { pt("atomic.Store"); x.v.Store(v) }
func (x *Uint64) Add(d uint64) uint64             { pt("atomic.Add"); return x.v.Add(d) }
func (x *Uint64) Swap(v uint64) uint64            { pt("atomic.Swap"); return x.v.Swap(v) }
func (x *Uint64) CompareAndSwap(o, n uint64) bool { pt("atomic.CAS"); return x.v.CompareAndSwap(o, n) }

func LoadUintptr(addr *uintptr) uintptr     { pt("atomic.Load"); return atomic.LoadUintptr(addr) }
func StoreUintptr(addr *uintptr, v uintptr) { pt("atomic.Store"); atomic.StoreUintptr(addr, v) }
func AddUintptr(addr *uintptr, d uintptr) uintptr {
	pt("atomic.Add")
	return atomic.AddUintptr(addr, d)
}
func SwapUintptr(addr *uintptr, v uintptr) uintptr {
	pt("atomic.Swap")
	return atomic.SwapUintptr(addr, v)
}
func CompareAndSwapUintptr(addr *uintptr, o, n uintptr) bool {
	pt("atomic.CAS")
	return atomic.CompareAndSwapUintptr(addr, o, n)
}

type Uintptr struct{ v atomic.Uintptr }

func (x *Uintptr) Load() uintptr          { pt("atomic.Load"); return x.v.Load() }
func (x *Uintptr) Store(v uintptr)        { pt("atomic.Store"); x.v.Store(v) }
func (x *Uintptr) Add(d uintptr) uintptr  { pt("atomic.Add"); return x.v.Add(d) }
func (x *Uintptr) Swap(v uintptr) uintptr { pt("atomic.Swap"); return x.v.Swap(v) }
func (x *Uintptr) CompareAndSwap(o, n uintptr) bool {
	pt("atomic.CAS")
	return x.v.CompareAndSwap(o, n)
}

func LoadPointer(addr *unsafe.Pointer) unsafe.Pointer {
	pt("atomic.Load")
	return atomic.LoadPointer(addr)
}
func StorePointer(addr *unsafe.Pointer, v unsafe.Pointer) {
	pt("atomic.Store")
	atomic.StorePointer(addr, v)
}
func SwapPointer(addr *unsafe.Pointer, v unsafe.Pointer) unsafe.Pointer {
	pt("atomic.Swap")
	return atomic.SwapPointer(addr, v)
}
func CompareAndSwapPointer(addr *unsafe.Pointer, o, n unsafe.Pointer) bool {
	pt("atomic.CAS")
	return atomic.CompareAndSwapPointer(addr, o, n)
}

type Bool struct{ v atomic.Bool }

func (x *Bool) Load() bool                    { pt("atomic.Load"); return x.v.Load() }
func (x *Bool) Store(v bool)                  { pt("atomic.Store"); x.v.Store(v) }
func (x *Bool) Swap(v bool) bool              { pt("atomic.Swap"); return x.v.Swap(v) }
func (x *Bool) CompareAndSwap(o, n bool) bool { pt("atomic.CAS"); return x.v.CompareAndSwap(o, n) }

type Pointer[T any] struct{ v atomic.Pointer[T] }

func (x *Pointer[T]) Load() *T                    { pt("atomic.Load"); return x.v.Load() }
func (x *Pointer[T]) Store(v *T)                  { pt("atomic.Store"); x.v.Store(v) }
func (x *Pointer[T]) Swap(v *T) *T                { pt("atomic.Swap"); return x.v.Swap(v) }
func (x *Pointer[T]) CompareAndSwap(o, n *T) bool { pt("atomic.CAS"); return x.v.CompareAndSwap(o, n) }

type Value struct{ v atomic.Value }

func (x *Value) Load() any      { pt("atomic.Value.Load"); return x.v.Load() }
func (x *Value) Store(v any)    { pt("atomic.Value.Store"); x.v.Store(v) }
func (x *Value) Swap(v any) any { pt("atomic.Value.Swap"); return x.v.Swap(v) }
func (x *Value) CompareAndSwap(o, n any) bool {
	pt("atomic.Value.CAS")
	return x.v.CompareAndSwap(o, n)
}

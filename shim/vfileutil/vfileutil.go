// Package vfileutil stands in for go.etcd.io/etcd/client/pkg/v3/fileutil under
// the repository's fs package.
package vfileutil

import (
	"go.etcd.io/etcd/client/pkg/v3/fileutil"

	"verif/shim/vos"
)

func Preallocate(f *vos.File, sizeInBytes int64, extendFile bool) error {
	if r := f.Real(); r != nil {
		return fileutil.Preallocate(r, sizeInBytes, extendFile)
	}
	if sizeInBytes == 0 {
		return nil
	}
	if !extendFile {
		// space reservation without changing the length: nothing observable
		return nil
	}
	return f.Preallocate(sizeInBytes)
}

func Fsync(f *vos.File) error     { return f.Sync() }
func Fdatasync(f *vos.File) error { return f.Sync() }

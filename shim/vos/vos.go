// Package vos stands in for package os under the repository's fs package (the
// overlay rewrites the import). Paths under /sim/<mount>/ are served by a
// simdisk.Disk; every other path passes through to the real os package.
package vos

import (
	"errors"
	"io"
	"io/fs"
	"os"
	"path/filepath"
	"time"

	"verif/shim/vsched"
	"verif/simdisk"
)

const (
	O_RDONLY = os.O_RDONLY
	O_WRONLY = os.O_WRONLY
	O_RDWR   = os.O_RDWR
	O_APPEND = os.O_APPEND
	O_CREATE = os.O_CREATE
	O_EXCL   = os.O_EXCL
	O_SYNC   = os.O_SYNC
	O_TRUNC  = os.O_TRUNC

	ModePerm = os.ModePerm
	ModeDir  = os.ModeDir
)

type (
	FileMode  = os.FileMode
	FileInfo  = os.FileInfo
	DirEntry  = os.DirEntry
	PathError = os.PathError
	LinkError = os.LinkError
)

var (
	ErrNotExist   = os.ErrNotExist
	ErrExist      = os.ErrExist
	ErrClosed     = os.ErrClosed
	ErrPermission = os.ErrPermission
	ErrInvalid    = os.ErrInvalid
)

func IsNotExist(err error) bool   { return os.IsNotExist(err) }
func IsExist(err error) bool      { return os.IsExist(err) }
func IsPermission(err error) bool { return os.IsPermission(err) }
func Getpid() int                 { return os.Getpid() }
func Getenv(k string) string      { return os.Getenv(k) }
func TempDir() string             { return os.TempDir() }

// File mirrors os.File: a struct that may be copied by value (fs.File embeds it).
type File struct {
	real *os.File
	h    *simdisk.Handle
	d    *simdisk.Disk
	name string
	pos  int64
}

func pt(desc string) { vsched.Yield(desc) }

func OpenFile(name string, flag int, perm FileMode) (*File, error) {
	d, fn, ok := simdisk.Resolve(name)
	if !ok {
		f, err := os.OpenFile(name, flag, perm)
		if err != nil {
			return nil, err
		}
		return &File{real: f, name: name}, nil
	}
	pt("io:open")
	if fn == "" {
		return &File{h: d.OpenDir(), d: d, name: name}, nil
	}
	ro := flag&(os.O_WRONLY|os.O_RDWR) == 0
	h, err := d.OpenFile(fn, flag&os.O_CREATE != 0, flag&os.O_EXCL != 0, ro, flag&os.O_TRUNC != 0)
	if err != nil {
		return nil, err
	}
	return &File{h: h, d: d, name: name}, nil
}

func Open(name string) (*File, error) { return OpenFile(name, O_RDONLY, 0) }
func Create(name string) (*File, error) {
	return OpenFile(name, O_RDWR|O_CREATE|O_TRUNC, 0666)
}

func Remove(name string) error {
	d, fn, ok := simdisk.Resolve(name)
	if !ok {
		return os.Remove(name)
	}
	pt("io:remove")
	return d.Remove(fn)
}

func RemoveAll(name string) error {
	d, fn, ok := simdisk.Resolve(name)
	if !ok {
		return os.RemoveAll(name)
	}
	pt("io:remove")
	if !d.Exists(fn) {
		return nil
	}
	return d.Remove(fn)
}

func Rename(a, b string) error {
	d, fa, ok := simdisk.Resolve(a)
	if !ok {
		return os.Rename(a, b)
	}
	_, fb, _ := simdisk.Resolve(b)
	pt("io:rename")
	return d.Rename(fa, fb)
}

func Truncate(name string, size int64) error {
	_, _, ok := simdisk.Resolve(name)
	if !ok {
		return os.Truncate(name, size)
	}
	f, err := OpenFile(name, O_RDWR, 0)
	if err != nil {
		return err
	}
	defer f.Close()
	return f.Truncate(size)
}

type info struct {
	name string
	size int64
	dir  bool
}

func (i info) Name() string { return i.name }
func (i info) Size() int64  { return i.size }
func (i info) Mode() FileMode {
	if i.dir {
		return os.ModeDir | 0755
	}
	return 0644
}
func (i info) ModTime() time.Time      { return time.Time{} }
func (i info) IsDir() bool             { return i.dir }
func (i info) Sys() any                { return nil }
func (i info) Type() FileMode          { return i.Mode().Type() }
func (i info) Info() (FileInfo, error) { return i, nil }

func Stat(name string) (FileInfo, error) {
	d, fn, ok := simdisk.Resolve(name)
	if !ok {
		return os.Stat(name)
	}
	pt("io:stat")
	if fn == "" {
		return info{name: filepath.Base(name), dir: true}, nil
	}
	sz, ok := d.FileSize(fn)
	if !ok {
		return nil, &fs.PathError{Op: "stat", Path: name, Err: fs.ErrNotExist}
	}
	return info{name: fn, size: sz}, nil
}

func Lstat(name string) (FileInfo, error) { return Stat(name) }

func ReadDir(name string) ([]DirEntry, error) {
	d, fn, ok := simdisk.Resolve(name)
	if !ok {
		return os.ReadDir(name)
	}
	pt("io:readdir")
	if fn != "" {
		return nil, &fs.PathError{Op: "readdir", Path: name, Err: errors.New("not a directory")}
	}
	ns, err := d.ListDir()
	if err != nil {
		return nil, err
	}
	out := make([]DirEntry, len(ns))
	for i, n := range ns {
		sz, _ := d.FileSize(n)
		out[i] = info{name: n, size: sz}
	}
	return out, nil
}

func ReadFile(name string) ([]byte, error) {
	_, _, ok := simdisk.Resolve(name)
	if !ok {
		return os.ReadFile(name)
	}
	f, err := Open(name)
	if err != nil {
		return nil, err
	}
	defer f.Close()
	b := make([]byte, f.h.Size())
	_, err = f.ReadAt(b, 0)
	if err == io.EOF {
		err = nil
	}
	return b, err
}

func WriteFile(name string, data []byte, perm FileMode) error {
	_, _, ok := simdisk.Resolve(name)
	if !ok {
		return os.WriteFile(name, data, perm)
	}
	f, err := OpenFile(name, O_WRONLY|O_CREATE|O_TRUNC, perm)
	if err != nil {
		return err
	}
	_, err = f.WriteAt(data, 0)
	if e := f.Close(); err == nil {
		err = e
	}
	return err
}

func MkdirAll(path string, perm FileMode) error {
	if _, _, ok := simdisk.Resolve(path); ok {
		return nil
	}
	return os.MkdirAll(path, perm)
}

func Mkdir(path string, perm FileMode) error {
	if _, _, ok := simdisk.Resolve(path); ok {
		return nil
	}
	return os.Mkdir(path, perm)
}

// ---- File methods ----

func (f *File) Name() string { return f.name }

func (f *File) Real() *os.File { return f.real }

func (f *File) Sim() *simdisk.Handle { return f.h }

func (f *File) Fd() uintptr {
	if f.real != nil {
		return f.real.Fd()
	}
	return ^uintptr(0)
}

func (f *File) ReadAt(p []byte, off int64) (int, error) {
	if f.real != nil {
		return f.real.ReadAt(p, off)
	}
	pt("io:read")
	n, err := f.h.ReadAt(p, off)
	// the caller is about to use what was read into p: a second point lets another thread run between the
	// completion of the read and that use (a buffer shared between readers shows only there)
	pt("io:read done")
	return n, err
}

func (f *File) WriteAt(p []byte, off int64) (int, error) {
	if f.real != nil {
		return f.real.WriteAt(p, off)
	}
	pt("io:write")
	return f.h.WriteAt(p, off)
}

func (f *File) Read(p []byte) (int, error) {
	if f.real != nil {
		return f.real.Read(p)
	}
	pt("io:read")
	n, err := f.h.ReadAt(p, f.pos)
	f.pos += int64(n)
	return n, err
}

func (f *File) Write(p []byte) (int, error) {
	if f.real != nil {
		return f.real.Write(p)
	}
	pt("io:write")
	n, err := f.h.WriteAt(p, f.pos)
	f.pos += int64(n)
	return n, err
}

func (f *File) WriteString(s string) (int, error) { return f.Write([]byte(s)) }

func (f *File) Seek(off int64, whence int) (int64, error) {
	if f.real != nil {
		return f.real.Seek(off, whence)
	}
	switch whence {
	case io.SeekStart:
		f.pos = off
	case io.SeekCurrent:
		f.pos += off
	case io.SeekEnd:
		f.pos = f.h.Size() + off
	}
	return f.pos, nil
}

func (f *File) Sync() error {
	if f.real != nil {
		return f.real.Sync()
	}
	pt("io:sync")
	return f.h.Sync()
}

func (f *File) Close() error {
	if f.real != nil {
		return f.real.Close()
	}
	if f.h == nil {
		return ErrInvalid
	}
	pt("io:close")
	return f.h.Close()
}

func (f *File) Truncate(size int64) error {
	if f.real != nil {
		return f.real.Truncate(size)
	}
	pt("io:truncate")
	return f.h.Truncate(size, false)
}

// Preallocate is what vfileutil.Preallocate calls for simulated files.
func (f *File) Preallocate(size int64) error {
	pt("io:prealloc")
	return f.h.Truncate(size, true)
}

func (f *File) Stat() (FileInfo, error) {
	if f.real != nil {
		return f.real.Stat()
	}
	if f.h.IsDir() {
		return info{name: filepath.Base(f.name), dir: true}, nil
	}
	return info{name: filepath.Base(f.name), size: f.h.Size()}, nil
}

func (f *File) Readdirnames(n int) ([]string, error) {
	if f.real != nil {
		return f.real.Readdirnames(n)
	}
	return f.d.ListDir()
}

func (f *File) Chmod(m FileMode) error {
	if f.real != nil {
		return f.real.Chmod(m)
	}
	return nil
}

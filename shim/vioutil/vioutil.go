// Package vioutil stands in for io/ioutil under the repository's fs package.
package vioutil

import (
	"io"
	"io/ioutil"

	"verif/shim/vos"
	"verif/simdisk"
)

func ReadDir(dir string) ([]vos.FileInfo, error) {
	if _, _, ok := simdisk.Resolve(dir); !ok {
		return ioutil.ReadDir(dir)
	}
	es, err := vos.ReadDir(dir)
	if err != nil {
		return nil, err
	}
	out := make([]vos.FileInfo, len(es))
	for i, e := range es {
		fi, _ := e.Info()
		out[i] = fi
	}
	return out, nil
}

func ReadFile(name string) ([]byte, error) { return vos.ReadFile(name) }
func WriteFile(name string, data []byte, perm vos.FileMode) error {
	return vos.WriteFile(name, data, perm)
}
func ReadAll(r io.Reader) ([]byte, error) { return io.ReadAll(r) }

var Discard = io.Discard

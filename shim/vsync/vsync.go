// Package vsync mirrors the parts of package sync that the repository uses.
// With a vsched scheduler installed the primitives are modelled (held flags,
// counters) and every acquiring operation is a scheduling point; otherwise
// they delegate to the real package.
package vsync

import (
	"fmt"
	"sort"
	"sync"
	"unsafe"

	"verif/shim/vsched"
)

type Locker = sync.Locker

type Mutex struct {
	real sync.Mutex
	held bool
}

func (m *Mutex) Lock() {
	if s := vsched.Cur(); s != nil {
		if s.Aborting() {
			return
		}
		s.Point(func() bool { return !m.held }, "Mutex.Lock")
		m.held = true
		return
	}
	m.real.Lock()
}

func (m *Mutex) TryLock() bool {
	if s := vsched.Cur(); s != nil {
		if s.Aborting() {
			return true
		}
		s.Point(nil, "Mutex.TryLock")
		if m.held {
			return false
		}
		m.held = true
		return true
	}
	return m.real.TryLock()
}

func (m *Mutex) Unlock() {
	if s := vsched.Cur(); s != nil {
		if !m.held && !s.Aborting() {
			panic("sync: unlock of unlocked mutex")
		}
		m.held = false
		return
	}
	m.real.Unlock()
}

type RWMutex struct {
	real    sync.RWMutex
	writer  bool
	readers int
}

func (m *RWMutex) Lock() {
	if s := vsched.Cur(); s != nil {
		if s.Aborting() {
			return
		}
		s.Point(func() bool { return !m.writer && m.readers == 0 }, "RWMutex.Lock")
		m.writer = true
		return
	}
	m.real.Lock()
}

func (m *RWMutex) Unlock() {
	if s := vsched.Cur(); s != nil {
		if !m.writer && !s.Aborting() {
			panic("sync: Unlock of unlocked RWMutex")
		}
		m.writer = false
		return
	}
	m.real.Unlock()
}

func (m *RWMutex) RLock() {
	if s := vsched.Cur(); s != nil {
		if s.Aborting() {
			return
		}
		s.Point(func() bool { return !m.writer }, "RWMutex.RLock")
		m.readers++
		return
	}
	m.real.RLock()
}

func (m *RWMutex) RUnlock() {
	if s := vsched.Cur(); s != nil {
		if m.readers <= 0 && !s.Aborting() {
			panic("sync: RUnlock of unlocked RWMutex")
		}
		m.readers--
		return
	}
	m.real.RUnlock()
}

func (m *RWMutex) RLocker() Locker { return rlocker{m} }

type rlocker struct{ m *RWMutex }

func (r rlocker) Lock()   { r.m.RLock() }
func (r rlocker) Unlock() { r.m.RUnlock() }

type WaitGroup struct {
	real sync.WaitGroup
	n    int
}

func (w *WaitGroup) Add(d int) {
	if s := vsched.Cur(); s != nil {
		w.n += d
		if w.n < 0 && !s.Aborting() {
			panic("sync: negative WaitGroup counter")
		}
		return
	}
	w.real.Add(d)
}

func (w *WaitGroup) Done() { w.Add(-1) }

func (w *WaitGroup) Wait() {
	if s := vsched.Cur(); s != nil {
		if s.Aborting() {
			return
		}
		s.Point(func() bool { return w.n == 0 }, "WaitGroup.Wait")
		return
	}
	w.real.Wait()
}

type Once struct {
	m    Mutex
	done bool
	real sync.Once
}

func (o *Once) Do(f func()) {
	if vsched.Cur() == nil {
		o.real.Do(f)
		return
	}
	o.m.Lock()
	defer o.m.Unlock()
	if !o.done {
		defer func() { o.done = true }()
		f()
	}
}

// Pool is a deterministic LIFO free list (the real sync.Pool drops and
// reorders items at the runtime's whim, which would make buffer-aliasing
// behaviour unrepeatable).
type Pool struct {
	New   func() any
	mu    sync.Mutex
	items []any
}

func (p *Pool) Get() any {
	p.mu.Lock()
	if n := len(p.items); n > 0 {
		x := p.items[n-1]
		p.items = p.items[:n-1]
		p.mu.Unlock()
		return x
	}
	p.mu.Unlock()
	if p.New != nil {
		return p.New()
	}
	return nil
}

func (p *Pool) Put(x any) {
	p.mu.Lock()
	// the same buffer put back while it is still in the pool is a double release: two later Gets would hand
	// the same memory to two users. The real pool does not notice; the shim does, on every schedule.
	if id := identity(x); id != nil {
		for _, it := range p.items {
			if identity(it) == id {
				p.mu.Unlock()
				panic("sync.Pool: the same buffer was put back twice (double release of a pooled buffer)")
			}
		}
	}
	p.items = append(p.items, x)
	p.mu.Unlock()
}

// identity returns the address that identifies a pooled value: the backing array of a byte slice, the target
// of a pointer to one, nil for anything else.
func identity(x any) unsafe.Pointer {
	switch v := x.(type) {
	case []byte:
		if cap(v) == 0 {
			return nil
		}
		return unsafe.Pointer(unsafe.SliceData(v[:1]))
	case *[]byte:
		return unsafe.Pointer(v)
	}
	return nil
}

// Cond mirrors sync.Cond on a vsync Locker.
type Cond struct {
	L       Locker
	real    *sync.Cond
	waiters []*bool
}

func NewCond(l Locker) *Cond { return &Cond{L: l, real: sync.NewCond(l)} }

func (c *Cond) Wait() {
	if s := vsched.Cur(); s != nil {
		if s.Aborting() {
			return
		}
		woken := false
		c.waiters = append(c.waiters, &woken)
		c.L.Unlock()
		s.Point(func() bool { return woken }, "Cond.Wait")
		c.L.Lock()
		return
	}
	c.real.Wait()
}

func (c *Cond) Signal() {
	if vsched.Cur() != nil {
		if len(c.waiters) > 0 {
			*c.waiters[0] = true
			c.waiters = c.waiters[1:]
		}
		return
	}
	c.real.Signal()
}

func (c *Cond) Broadcast() {
	if vsched.Cur() != nil {
		for _, w := range c.waiters {
			*w = true
		}
		c.waiters = nil
		return
	}
	c.real.Broadcast()
}

// Map mirrors sync.Map; every operation is one scheduling point followed by the real (atomic) operation.
// Range iterates over a snapshot in sorted key order when keys are strings or integers, so that executions
// stay repeatable.
type Map struct{ real sync.Map }

func (m *Map) Load(k any) (any, bool) { vsched.Yield("Map.Load"); return m.real.Load(k) }
func (m *Map) Store(k, v any)         { vsched.Yield("Map.Store"); m.real.Store(k, v) }
func (m *Map) LoadOrStore(k, v any) (any, bool) {
	vsched.Yield("Map.LoadOrStore")
	return m.real.LoadOrStore(k, v)
}
func (m *Map) LoadAndDelete(k any) (any, bool) {
	vsched.Yield("Map.LoadAndDelete")
	return m.real.LoadAndDelete(k)
}
func (m *Map) Delete(k any)              { vsched.Yield("Map.Delete"); m.real.Delete(k) }
func (m *Map) Swap(k, v any) (any, bool) { vsched.Yield("Map.Swap"); return m.real.Swap(k, v) }
func (m *Map) CompareAndSwap(k, o, n any) bool {
	vsched.Yield("Map.CompareAndSwap")
	return m.real.CompareAndSwap(k, o, n)
}
func (m *Map) CompareAndDelete(k, o any) bool {
	vsched.Yield("Map.CompareAndDelete")
	return m.real.CompareAndDelete(k, o)
}
func (m *Map) Clear() { vsched.Yield("Map.Clear"); m.real.Clear() }
func (m *Map) Range(f func(k, v any) bool) {
	vsched.Yield("Map.Range")
	type kv struct{ k, v any }
	var all []kv
	m.real.Range(func(k, v any) bool { all = append(all, kv{k, v}); return true })
	sort.SliceStable(all, func(i, j int) bool { return fmt.Sprint(all[i].k) < fmt.Sprint(all[j].k) })
	for _, e := range all {
		if !f(e.k, e.v) {
			return
		}
	}
}

// OnceFunc, OnceValue and OnceValues mirror the helpers of package sync on the shim's Once.
func OnceFunc(f func()) func() {
	var o Once
	return func() { o.Do(f) }
}

func OnceValue[T any](f func() T) func() T {
	var o Once
	var r T
	return func() T { o.Do(func() { r = f() }); return r }
}

func OnceValues[T1, T2 any](f func() (T1, T2)) func() (T1, T2) {
	var o Once
	var r1 T1
	var r2 T2
	return func() (T1, T2) { o.Do(func() { r1, r2 = f() }); return r1, r2 }
}

// Package vsync mirrors the parts of package sync that the repository uses.
// With a vsched scheduler installed the primitives are modelled (held flags,
// counters) and every acquiring operation is a scheduling point; otherwise
// they delegate to the real package.
package vsync

import (
	"sync"

	"verif/shim/vsched"
)

type Locker = sync.Locker

type Mutex struct {
	real sync.Mutex
	held bool
}

func (m *Mutex) Lock() {
	if s := vsched.Cur(); s != nil {
		if s.Aborting() {
			return
		}
		s.Point(func() bool { return !m.held }, "Mutex.Lock")
		m.held = true
		return
	}
	m.real.Lock()
}

func (m *Mutex) TryLock() bool {
	if s := vsched.Cur(); s != nil {
		if s.Aborting() {
			return true
		}
		s.Point(nil, "Mutex.TryLock")
		if m.held {
			return false
		}
		m.held = true
		return true
	}
	return m.real.TryLock()
}

func (m *Mutex) Unlock() {
	if s := vsched.Cur(); s != nil {
		if !m.held && !s.Aborting() {
			panic("sync: unlock of unlocked mutex")
		}
		m.held = false
		return
	}
	m.real.Unlock()
}

type RWMutex struct {
	real    sync.RWMutex
	writer  bool
	readers int
}

func (m *RWMutex) Lock() {
	if s := vsched.Cur(); s != nil {
		if s.Aborting() {
			return
		}
		s.Point(func() bool { return !m.writer && m.readers == 0 }, "RWMutex.Lock")
		m.writer = true
		return
	}
	m.real.Lock()
}

func (m *RWMutex) Unlock() {
	if s := vsched.Cur(); s != nil {
		if !m.writer && !s.Aborting() {
			panic("sync: Unlock of unlocked RWMutex")
		}
		m.writer = false
		return
	}
	m.real.Unlock()
}

func (m *RWMutex) RLock() {
	if s := vsched.Cur(); s != nil {
		if s.Aborting() {
			return
		}
		s.Point(func() bool { return !m.writer }, "RWMutex.RLock")
		m.readers++
		return
	}
	m.real.RLock()
}

func (m *RWMutex) RUnlock() {
	if s := vsched.Cur(); s != nil {
		if m.readers <= 0 && !s.Aborting() {
			panic("sync: RUnlock of unlocked RWMutex")
		}
		m.readers--
		return
	}
	m.real.RUnlock()
}

func (m *RWMutex) RLocker() Locker { return rlocker{m} }

type rlocker struct{ m *RWMutex }

func (r rlocker) Lock()   { r.m.RLock() }
func (r rlocker) Unlock() { r.m.RUnlock() }

type WaitGroup struct {
	real sync.WaitGroup
	n    int
}

func (w *WaitGroup) Add(d int) {
	if s := vsched.Cur(); s != nil {
		w.n += d
		if w.n < 0 && !s.Aborting() {
			panic("sync: negative WaitGroup counter")
		}
		return
	}
	w.real.Add(d)
}

func (w *WaitGroup) Done() { w.Add(-1) }

func (w *WaitGroup) Wait() {
	if s := vsched.Cur(); s != nil {
		if s.Aborting() {
			return
		}
		s.Point(func() bool { return w.n == 0 }, "WaitGroup.Wait")
		return
	}
	w.real.Wait()
}

type Once struct {
	m    Mutex
	done bool
	real sync.Once
}

func (o *Once) Do(f func()) {
	if vsched.Cur() == nil {
		o.real.Do(f)
		return
	}
	o.m.Lock()
	defer o.m.Unlock()
	if !o.done {
		defer func() { o.done = true }()
		f()
	}
}

// Pool is a deterministic LIFO free list (the real sync.Pool drops and
// reorders items at the runtime's whim, which would make buffer-aliasing
// behaviour unrepeatable).
type Pool struct {
	New   func() any
	mu    sync.Mutex
	items []any
}

func (p *Pool) Get() any {
	p.mu.Lock()
	if n := len(p.items); n > 0 {
		x := p.items[n-1]
		p.items = p.items[:n-1]
		p.mu.Unlock()
		return x
	}
	p.mu.Unlock()
	if p.New != nil {
		return p.New()
	}
	return nil
}

func (p *Pool) Put(x any) {
	p.mu.Lock()
	p.items = append(p.items, x)
	p.mu.Unlock()
}

// Cond mirrors sync.Cond on a vsync Locker.
type Cond struct {
	L       Locker
	real    *sync.Cond
	waiters []*bool
}

func NewCond(l Locker) *Cond { return &Cond{L: l, real: sync.NewCond(l)} }

func (c *Cond) Wait() {
	if s := vsched.Cur(); s != nil {
		if s.Aborting() {
			return
		}
		woken := false
		c.waiters = append(c.waiters, &woken)
		c.L.Unlock()
		s.Point(func() bool { return woken }, "Cond.Wait")
		c.L.Lock()
		return
	}
	c.real.Wait()
}

func (c *Cond) Signal() {
	if vsched.Cur() != nil {
		if len(c.waiters) > 0 {
			*c.waiters[0] = true
			c.waiters = c.waiters[1:]
		}
		return
	}
	c.real.Signal()
}

func (c *Cond) Broadcast() {
	if vsched.Cur() != nil {
		for _, w := range c.waiters {
			*w = true
		}
		c.waiters = nil
		return
	}
	c.real.Broadcast()
}

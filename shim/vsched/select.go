package vsched

import (
	"reflect"
	"time"
)

// General select. The rewriter turns
//
//	select { case v, ok := <-a: A; case b <- x: B; default: D }
//
// into
//
//	{ c0 := vsched.RecvCase(a); c1 := vsched.SendCase(b, x)
//	  switch vsched.Select(true, c0, c1) { case 0: v, ok := c0.V, c0.OK; A; case 1: B; default: D } }
//
// Under a scheduler the select is one scheduling point that is enabled when some case can proceed (or there is
// a default); the lowest-numbered ready case is taken (Go picks at random among ready cases: an execution in
// which a higher-numbered one is taken corresponds to one in which the lower-numbered one became ready later,
// which other schedules cover for the uses found in this repository). A case on a channel made by After is
// never ready; it is taken when the scheduler fires the timeout.

type SelCase interface {
	ready(s *Sched) bool
	fire(s *Sched)
	isTimer(s *Sched) bool
	park(s *Sched, d int)
	rcase() reflect.SelectCase
	got(v reflect.Value, ok bool)
}

type RCase[T any] struct {
	V   T
	OK  bool
	key any
	rv  reflect.Value
	ln  func() int
	cp  int
	rcv func() (T, bool)
}

func RecvCase[C ~chan T | ~<-chan T, T any](c C) *RCase[T] {
	return &RCase[T]{key: toBidirKeyR(c), rv: reflect.ValueOf(c), ln: func() int { return chLenR(c) }, cp: chCapR(c), rcv: func() (T, bool) { return recvReal[C, T](c) }}
}

func (r *RCase[T]) isTimer(s *Sched) bool { return s.timers[r.key] }
func (r *RCase[T]) ready(s *Sched) bool {
	if s.timers[r.key] {
		return false
	}
	if s.closed[r.key] {
		return true
	}
	if r.cp == 0 {
		return s.slot(r.key).full
	}
	return r.ln() > 0
}
func (r *RCase[T]) park(s *Sched, d int) {
	if r.cp == 0 && !s.timers[r.key] {
		s.recvWait[r.key] += d
	}
}
func (r *RCase[T]) fire(s *Sched) {
	if r.cp == 0 {
		if h := s.slot(r.key); h.full {
			r.V, r.OK = h.v.(T), true
			h.v, h.full = nil, false
			return
		}
		var zero T
		r.V, r.OK = zero, false
		return
	}
	r.V, r.OK = r.rcv()
}
func (r *RCase[T]) rcase() reflect.SelectCase {
	return reflect.SelectCase{Dir: reflect.SelectRecv, Chan: r.rv}
}
func (r *RCase[T]) got(v reflect.Value, ok bool) {
	r.OK = ok
	if ok {
		r.V = v.Interface().(T)
	}
}

type SCase[T any] struct {
	key any
	rv  reflect.Value
	v   T
	ln  func() int
	cp  int
	snd func()
}

func SendCase[C ~chan T | ~chan<- T, T any](c C, v T) *SCase[T] {
	return &SCase[T]{key: toBidirKey(c), rv: reflect.ValueOf(c), v: v, ln: func() int { return chLen(c) }, cp: chCap(c), snd: func() { sendReal(c, v) }}
}

func (x *SCase[T]) isTimer(s *Sched) bool { return false }
func (x *SCase[T]) park(s *Sched, d int)  {}
func (x *SCase[T]) ready(s *Sched) bool {
	if s.closed[x.key] {
		return true
	}
	if x.cp == 0 {
		return s.recvWait[x.key] > 0 && !s.slot(x.key).full
	}
	return x.ln() < x.cp
}
func (x *SCase[T]) fire(s *Sched) {
	if s.closed[x.key] {
		panic("send on closed channel")
	}
	if x.cp == 0 {
		h := s.slot(x.key)
		h.v, h.full = x.v, true
		return
	}
	x.snd()
}
func (x *SCase[T]) rcase() reflect.SelectCase {
	return reflect.SelectCase{Dir: reflect.SelectSend, Chan: x.rv, Send: reflect.ValueOf(x.v)}
}
func (x *SCase[T]) got(reflect.Value, bool) {}

// Select returns the index of the case that proceeded, -1 for the default clause.
func Select(hasDefault bool, cases ...SelCase) int {
	s := Cur()
	if s == nil || s.aborting {
		rc := make([]reflect.SelectCase, 0, len(cases)+1)
		for _, c := range cases {
			rc = append(rc, c.rcase())
		}
		if hasDefault {
			rc = append(rc, reflect.SelectCase{Dir: reflect.SelectDefault})
		}
		i, v, ok := reflect.Select(rc)
		if i == len(cases) {
			return -1
		}
		cases[i].got(v, ok)
		return i
	}
	t := s.cur
	timer := -1
	for i, c := range cases {
		if c.isTimer(s) && timer < 0 {
			timer = i
		}
	}
	anyReady := func() int {
		for i, c := range cases {
			if c.ready(s) {
				return i
			}
		}
		return -1
	}
	for _, c := range cases {
		c.park(s, +1)
	}
	if timer >= 0 && !hasDefault {
		t.timeoutOK = true
	}
	s.Point(func() bool { return hasDefault || anyReady() >= 0 }, "select")
	timedOut := t.timedOut
	t.timeoutOK, t.timedOut = false, false
	for _, c := range cases {
		c.park(s, -1)
	}
	if i := anyReady(); i >= 0 {
		cases[i].fire(s)
		return i
	}
	if timedOut && timer >= 0 {
		cases[timer].got(reflect.ValueOf(time.Time{}), true)
		return timer
	}
	return -1
}

// After replaces time.After in rewritten code: without a scheduler it is time.After; with one it returns a
// channel that never becomes ready and that completes a receive or a select case only when the scheduler
// fires the timeout (nothing else can run while some harness thread still waits).
func After(d time.Duration) <-chan time.Time {
	s := Cur()
	if s == nil || s.aborting {
		return time.After(d)
	}
	c := make(chan time.Time)
	var rc <-chan time.Time = c
	s.timers[toBidirKeyR(rc)] = true
	s.keep = append(s.keep, c)
	return rc
}

// Sleep replaces time.Sleep in rewritten code: under a scheduler it is a plain scheduling point.
func Sleep(d time.Duration) {
	if s := Cur(); s != nil && !s.aborting {
		s.Point(nil, "sleep")
		return
	}
	time.Sleep(d)
}

// Package vsched is a cooperative scheduler. Exactly one registered thread runs
// at a time; every shim operation (lock, atomic, channel op, simulated I/O,
// spawn) is a scheduling point at which a Chooser decides who runs next. With
// no scheduler installed every entry point passes straight through to the real
// primitive, so instrumented code also runs free.
package vsched

import (
	"fmt"
	"runtime/debug"
	"sync/atomic"
	"time"
)

// Pred reports whether a parked thread's pending operation can complete now.
type Pred func() bool

type Thread struct {
	ID      int
	Name    string
	Daemon  bool
	wake    chan struct{}
	pred    Pred
	desc    string
	quiesce bool
	done    bool
	// timeoutOK: the pending operation may also complete by a timer firing; the scheduler fires it only when
	// nothing else can run while a non-daemon thread is unfinished ("eventually the timeout comes").
	timeoutOK bool
	timedOut  bool
	Panic     any
	Stack     string
}

// PointInfo describes one choice point (two or more threads enabled).
type PointInfo struct {
	Enabled    []int // canonical order: current thread first if enabled, then ascending ids
	CurEnabled bool
	Cur        int
	Desc       string
}

type Chooser interface {
	Choose(p *PointInfo) int // index into p.Enabled
}

// ChoiceRec is what the explorer needs about a visited choice point.
type ChoiceRec struct {
	N          int  // number of enabled threads
	CurEnabled bool // switching away from index 0 is a preemption
	Chosen     int
	Tid        int // thread chosen
	Desc       string
}

type Result struct {
	Choices       []ChoiceRec
	Deadlock      bool
	StepLimit     bool
	Blocked       []string // "name: desc" of threads blocked at the end
	Panics        []PanicRec
	Steps         int
	LeakedDaemons []string // daemon threads still parked (blocked) at the end
}

type PanicRec struct {
	Thread string
	Val    string
	Stack  string
}

type Sched struct {
	threads       []*Thread
	cur           *Thread
	chooser       Chooser
	finished      chan struct{}
	finSent       bool
	aborting      bool
	abortAck      chan struct{}
	res           Result
	maxSteps      int
	inQuiesceEval bool
	// DescOn makes Point record descriptions (slower); off by default.
	TraceOn  bool
	TraceLog []string
	norecord bool
	clock    int64
	closed   map[any]bool
	keep     []any
	// unbuffered channels are modelled: a value in flight per channel and the number of parked receivers
	hand     map[any]*handoff
	recvWait map[any]int
	timers   map[any]bool // channels made by After: never ready, complete only by timeout
	timeouts int
}

type handoff struct {
	v    any
	full bool
}

var active atomic.Pointer[Sched]

// freeAlive counts goroutines started by Go() while no scheduler was installed
// and still running. Such a goroutine must not meet a scheduler (it would be
// mistaken for the current thread), so Run refuses to start while any is alive.
var freeAlive atomic.Int64

// FreeGoroutines reports how many free-running library goroutines are alive.
func FreeGoroutines() int64 { return freeAlive.Load() }

// Cur returns the installed scheduler or nil.
func Cur() *Sched { return active.Load() }

type abortT struct{}

var abortSentinel = abortT{}

// DefaultChooser keeps the current thread running while it is enabled,
// otherwise the lowest id.
type DefaultChooser struct{}

func (DefaultChooser) Choose(p *PointInfo) int { return 0 }

// Run executes main as thread 0 under chooser until no thread is enabled.
func Run(chooser Chooser, maxSteps int, traceOn bool, main func()) *Result {
	if maxSteps <= 0 {
		maxSteps = 200000
	}
	s := &Sched{chooser: chooser, finished: make(chan struct{}, 1), abortAck: make(chan struct{}), maxSteps: maxSteps, TraceOn: traceOn, closed: map[any]bool{}, hand: map[any]*handoff{}, recvWait: map[any]int{}, timers: map[any]bool{}}
	for i := 0; freeAlive.Load() > 0 && i < 2000; i++ {
		time.Sleep(time.Millisecond) // goroutines of a WAL that was just closed are on their way out
	}
	if n := freeAlive.Load(); n > 0 {
		panic(fmt.Sprintf("vsched: %d free-running library goroutines are still alive (a WAL opened without a scheduler was not closed); refusing to install a scheduler", n))
	}
	if !active.CompareAndSwap(nil, s) {
		panic("vsched: scheduler already active")
	}
	t := s.newThread("main", false, main)
	s.cur = t
	t.wake <- struct{}{}
	<-s.finished
	// kill whatever is still parked
	s.aborting = true
	for _, th := range s.threads {
		if !th.done {
			th.wake <- struct{}{}
			<-s.abortAck
		}
	}
	active.Store(nil)
	s.res.Steps = s.steps()
	return &s.res
}

var stepCounter int

func (s *Sched) steps() int { return stepCounter }

func (s *Sched) newThread(name string, daemon bool, fn func()) *Thread {
	t := &Thread{ID: len(s.threads), Name: name, Daemon: daemon, wake: make(chan struct{}, 1)}
	s.threads = append(s.threads, t)
	if len(s.threads) == 1 {
		stepCounter = 0
	}
	go func() {
		<-t.wake
		if s.aborting {
			t.done = true
			s.abortAck <- struct{}{}
			return
		}
		defer func() {
			r := recover()
			t.done = true
			if _, isAbort := r.(abortT); isAbort || s.aborting {
				s.abortAck <- struct{}{}
				return
			}
			if r != nil {
				s.res.Panics = append(s.res.Panics, PanicRec{Thread: t.Name, Val: fmt.Sprint(r), Stack: string(debug.Stack())})
				s.finish()
				return
			}
			s.next(t, true)
		}()
		fn()
	}()
	return t
}

func (s *Sched) finish() {
	if !s.finSent {
		s.finSent = true
		s.finished <- struct{}{}
	}
}

func (s *Sched) enabledOf(t *Thread) bool {
	if t.done {
		return false
	}
	if t.quiesce {
		if s.inQuiesceEval {
			return false
		}
		s.inQuiesceEval = true
		ok := true
		for _, o := range s.threads {
			if o != t && s.enabledOf(o) {
				ok = false
				break
			}
		}
		s.inQuiesceEval = false
		return ok
	}
	return t.pred == nil || t.timedOut || t.pred()
}

// next picks the thread to run after `from` reached a point (or finished).
func (s *Sched) next(from *Thread, fromDone bool) {
	var enabled []int
	curEnabled := false
	if !fromDone && s.enabledOf(from) {
		enabled = append(enabled, from.ID)
		curEnabled = true
	}
	for _, t := range s.threads {
		if t == from {
			continue
		}
		if s.enabledOf(t) {
			enabled = append(enabled, t.ID)
		}
	}
	if len(enabled) == 0 && s.timeouts < 64 {
		// nothing can run: if a harness thread still has work to do, the lowest-numbered thread waiting with
		// a timeout gets it
		need := false
		for _, t := range s.threads {
			if !t.done && !t.Daemon && !(t.quiesce && t == from) {
				need = true
			}
		}
		if need {
			for _, t := range s.threads {
				if !t.done && t.timeoutOK && !t.timedOut && !(t == from && fromDone) {
					t.timedOut = true
					s.timeouts++
					enabled = append(enabled, t.ID)
					if t == from {
						curEnabled = true
					}
					break
				}
			}
		}
	}
	if len(enabled) == 0 {
		// A harness thread is blocked and nothing can run: before calling it a deadlock give real-time events
		// (a timer of the time package, a goroutine outside the scheduler) 50 ms to make some pending
		// operation possible. Only reached when the verdict would otherwise be "deadlock".
		stuck := false
		for _, t := range s.threads {
			if !t.done && !t.Daemon {
				stuck = true
			}
		}
		for i := 0; stuck && i < 25 && len(enabled) == 0; i++ {
			time.Sleep(2 * time.Millisecond)
			if !fromDone && s.enabledOf(from) {
				enabled = append(enabled, from.ID)
				curEnabled = true
			}
			for _, t := range s.threads {
				if t != from && s.enabledOf(t) {
					enabled = append(enabled, t.ID)
				}
			}
		}
	}
	if len(enabled) == 0 {
		// end of execution
		for _, t := range s.threads {
			if !t.done {
				d := t.desc
				if t.quiesce {
					d = "quiesce"
				}
				if t.Daemon {
					s.res.LeakedDaemons = append(s.res.LeakedDaemons, t.Name+": "+d)
				} else {
					s.res.Deadlock = true
				}
				s.res.Blocked = append(s.res.Blocked, t.Name+": "+d)
			}
		}
		s.finish()
		if !fromDone {
			<-from.wake
			panic(abortSentinel)
		}
		return
	}
	idx := 0
	if len(enabled) > 1 && !s.norecord {
		pi := &PointInfo{Enabled: enabled, CurEnabled: curEnabled, Cur: from.ID, Desc: from.desc}
		idx = s.chooser.Choose(pi)
		if idx < 0 || idx >= len(enabled) {
			panic(fmt.Sprintf("vsched: chooser returned %d of %d", idx, len(enabled)))
		}
		s.res.Choices = append(s.res.Choices, ChoiceRec{N: len(enabled), CurEnabled: curEnabled, Chosen: idx, Tid: enabled[idx], Desc: from.desc})
	}
	target := s.threads[enabled[idx]]
	if target == from {
		return
	}
	s.cur = target
	if s.TraceOn {
		s.TraceLog = append(s.TraceLog, fmt.Sprintf("switch %s -> %s (%s)", from.Name, target.Name, target.desc))
	}
	target.wake <- struct{}{}
	if !fromDone {
		<-from.wake
		if s.aborting {
			panic(abortSentinel)
		}
	}
}

// Point is a scheduling point of the current thread; pred (may be nil) says
// when the operation that follows can complete.
func (s *Sched) Point(pred Pred, desc string) {
	if s.aborting {
		return
	}
	t := s.cur
	stepCounter++
	if stepCounter > s.maxSteps {
		s.res.StepLimit = true
		s.finish()
		<-t.wake
		panic(abortSentinel)
	}
	t.pred, t.desc = pred, desc
	if s.TraceOn {
		s.TraceLog = append(s.TraceLog, t.Name+": "+desc)
	}
	s.next(t, false)
	t.pred = nil
}

// Aborting reports whether the execution is being torn down (shims become no-ops).
func (s *Sched) Aborting() bool { return s.aborting }

// CurThread returns the running thread's id and name.
func (s *Sched) CurThread() (int, string) { return s.cur.ID, s.cur.Name }

// Trace returns the recorded step log (TraceOn only).
func (s *Sched) Trace() []string { return s.TraceLog }

// ---- entry points used by rewritten code and harnesses ----

// Yield is a plain scheduling point.
func Yield(desc string) {
	if s := Cur(); s != nil {
		s.Point(nil, desc)
	}
}

// Block parks the current thread until pred holds.
func Block(pred Pred, desc string) {
	if s := Cur(); s != nil {
		s.Point(pred, desc)
	}
}

// Go replaces the go statement in rewritten library code: a daemon thread.
func Go(fn func()) {
	s := Cur()
	if s == nil {
		freeAlive.Add(1)
		go func() {
			defer freeAlive.Add(-1)
			fn()
		}()
		return
	}
	if s.aborting {
		return
	}
	s.newThread(fmt.Sprintf("bg%d", len(s.threads)), true, fn)
	s.Point(nil, "spawn")
}

// Spawn starts a harness (non-daemon) thread.
func Spawn(name string, fn func()) {
	s := Cur()
	if s == nil {
		panic("vsched.Spawn without scheduler")
	}
	s.newThread(name, false, fn)
}

// Quiesce parks the caller until no other thread is enabled (background work
// has run to its next blocking point).
func Quiesce() {
	s := Cur()
	if s == nil || s.aborting {
		return
	}
	t := s.cur
	t.quiesce = true
	t.desc = "quiesce"
	s.next(t, false)
	t.quiesce = false
}

// ---- channels ----

func Send[C ~chan T | ~chan<- T, T any](c C, v T) {
	s := Cur()
	if s == nil || s.aborting {
		sendReal(c, v)
		return
	}
	k := toBidirKey(c)
	if chCap(c) == 0 {
		// rendezvous: wait for a parked receiver, hand the value over, wait until it was taken
		s.Point(func() bool { return s.closed[k] || (s.recvWait[k] > 0 && !s.slot(k).full) }, "send (unbuffered)")
		if s.closed[k] {
			panic("send on closed channel")
		}
		h := s.slot(k)
		h.v, h.full = v, true
		s.Point(func() bool { return !h.full }, "send (unbuffered, handing over)")
		return
	}
	s.Point(func() bool { return s.closed[k] || chLen(c) < chCap(c) }, "send")
	sendReal(c, v) // panics if closed, like the real thing
}

func (s *Sched) slot(k any) *handoff {
	h := s.hand[k]
	if h == nil {
		h = &handoff{}
		s.hand[k] = h
	}
	return h
}

func TrySend[C ~chan T | ~chan<- T, T any](c C, v T) bool {
	s := Cur()
	if s != nil && !s.aborting {
		s.Point(nil, "trysend")
		if chCap(c) == 0 {
			k := toBidirKey(c)
			if s.closed[k] {
				panic("send on closed channel")
			}
			if h := s.slot(k); s.recvWait[k] > 0 && !h.full {
				h.v, h.full = v, true
				return true
			}
			return false
		}
	}
	return trySendReal(c, v)
}

func Recv[C ~chan T | ~<-chan T, T any](c C) T {
	v, _ := Recv2[C, T](c)
	return v
}

func Recv2[C ~chan T | ~<-chan T, T any](c C) (T, bool) {
	s := Cur()
	if s == nil || s.aborting {
		return recvReal[C, T](c)
	}
	k := toBidirKeyR(c)
	if s.timers[k] {
		t := s.cur
		t.timeoutOK = true
		s.Point(func() bool { return false }, "recv (timer)")
		t.timeoutOK, t.timedOut = false, false
		var zero T
		return zero, true
	}
	if chCapR(c) == 0 {
		s.recvWait[k]++
		s.Point(func() bool { return s.closed[k] || s.slot(k).full }, "recv (unbuffered)")
		s.recvWait[k]--
		if h := s.slot(k); h.full {
			v := h.v.(T)
			h.v, h.full = nil, false
			return v, true
		}
		var zero T
		return zero, false
	}
	s.Point(func() bool { return s.closed[k] || chLenR(c) > 0 }, "recv")
	return recvReal[C, T](c)
}

func TryRecv[C ~chan T | ~<-chan T, T any](c C) (T, bool, bool) {
	s := Cur()
	if s != nil && !s.aborting {
		s.Point(nil, "tryrecv")
		k := toBidirKeyR(c)
		if s.timers[k] {
			var zero T
			return zero, false, false
		}
		if chCapR(c) == 0 {
			var zero T
			if h := s.slot(k); h.full {
				v := h.v.(T)
				h.v, h.full = nil, false
				return v, true, true
			}
			if s.closed[k] {
				return zero, false, true
			}
			return zero, false, false
		}
	}
	return tryRecvReal[C, T](c)
}

func Close[C ~chan T | ~chan<- T, T any](c C) {
	s := Cur()
	if s != nil && !s.aborting {
		s.Point(nil, "close")
		s.closed[toBidirKey(c)] = true
		s.keep = append(s.keep, c)
	}
	closeReal(c)
}

// SetRecording switches choice recording on or off. While off the default
// choice (keep running, else lowest id) is taken and nothing is recorded:
// used for the sequential set-up and tear-down phases of a scenario.
func SetRecording(on bool) {
	if s := Cur(); s != nil {
		s.norecord = !on
	}
}

// Tick advances and returns the execution's logical clock.
func Tick() int64 {
	if s := Cur(); s != nil {
		s.clock++
		return s.clock
	}
	return 0
}

// WaitThreads parks the caller until every other non-daemon thread is done.
func WaitThreads() {
	s := Cur()
	if s == nil || s.aborting {
		return
	}
	t := s.cur
	s.Point(func() bool {
		for _, o := range s.threads {
			if o != t && !o.Daemon && !o.done {
				return false
			}
		}
		return true
	}, "wait-threads")
}

// DaemonsLeft lists daemon threads that are not finished (name: pending op).
func DaemonsLeft() []string {
	s := Cur()
	if s == nil {
		return nil
	}
	var out []string
	for _, t := range s.threads {
		if t.Daemon && !t.done {
			out = append(out, t.Name+": "+t.desc)
		}
	}
	return out
}

package vsched

import "reflect"

func toBidirKey[C ~chan T | ~chan<- T, T any](c C) any  { return reflect.ValueOf(c).Pointer() }
func toBidirKeyR[C ~chan T | ~<-chan T, T any](c C) any { return reflect.ValueOf(c).Pointer() }

func chLen[C ~chan T | ~chan<- T, T any](c C) int  { return len(c) }
func chCap[C ~chan T | ~chan<- T, T any](c C) int  { return cap(c) }
func chLenR[C ~chan T | ~<-chan T, T any](c C) int { return len(c) }
func chCapR[C ~chan T | ~<-chan T, T any](c C) int { return cap(c) }

func sendReal[C ~chan T | ~chan<- T, T any](c C, v T) { c <- v }

func trySendReal[C ~chan T | ~chan<- T, T any](c C, v T) bool {
	select {
	case c <- v:
		return true
	default:
		return false
	}
}

func recvReal[C ~chan T | ~<-chan T, T any](c C) (T, bool) {
	v, ok := <-c
	return v, ok
}

func tryRecvReal[C ~chan T | ~<-chan T, T any](c C) (v T, ok bool, got bool) {
	select {
	case v, ok = <-c:
		return v, ok, true
	default:
		return v, false, false
	}
}

func closeReal[C ~chan T | ~chan<- T, T any](c C) { close(c) }

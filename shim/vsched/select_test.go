package vsched

import (
	"testing"
	"time"
)

func TestUnbufferedRendezvous(t *testing.T) {
	var got []int
	res := Run(DefaultChooser{}, 0, false, func() {
		c := make(chan int)
		Spawn("sender", func() {
			for i := 1; i <= 3; i++ {
				Send(c, i)
			}
			Close(c)
		})
		for {
			v, ok := Recv2(c)
			if !ok {
				break
			}
			got = append(got, v)
		}
	})
	if res.Deadlock || len(res.Panics) > 0 || len(got) != 3 || got[2] != 3 {
		t.Fatalf("got %v deadlock=%v panics=%v blocked=%v", got, res.Deadlock, res.Panics, res.Blocked)
	}
}

func TestSelectGeneral(t *testing.T) {
	var order []string
	res := Run(DefaultChooser{}, 0, false, func() {
		a := make(chan int, 1)
		b := make(chan string)
		done := make(chan struct{})
		Spawn("producer", func() {
			Send(b, "x")
			Send(a, 7)
			Close(done)
		})
		for n := 0; n < 3; n++ {
			ca, cb, cd := RecvCase(a), RecvCase(b), RecvCase(done)
			switch Select(false, ca, cb, cd) {
			case 0:
				order = append(order, "a")
				if ca.V != 7 || !ca.OK {
					t.Errorf("a: %v %v", ca.V, ca.OK)
				}
			case 1:
				order = append(order, "b:"+cb.V)
			case 2:
				order = append(order, "done")
			}
		}
	})
	if res.Deadlock || len(res.Panics) > 0 || len(order) != 3 || order[0] != "b:x" {
		t.Fatalf("order %v deadlock=%v panics=%v blocked=%v", order, res.Deadlock, res.Panics, res.Blocked)
	}
}

func TestSelectTimeoutAndDefault(t *testing.T) {
	var what []string
	res := Run(DefaultChooser{}, 0, false, func() {
		never := make(chan int)
		// default taken when nothing is ready
		if Select(true, RecvCase(never)) != -1 {
			t.Errorf("default not taken")
		}
		// a timer case fires when nothing else can run
		c0, c1 := RecvCase(never), RecvCase(After(time.Hour))
		switch Select(false, c0, c1) {
		case 0:
			what = append(what, "never")
		case 1:
			what = append(what, "timeout")
		}
		// a plain receive from a timer channel
		Recv(After(time.Hour))
		what = append(what, "after")
		// send case on a full buffered channel is not ready, the other is
		full := make(chan int, 1)
		full <- 1
		free := make(chan int, 1)
		if i := Select(false, SendCase(full, 2), SendCase(free, 3)); i != 1 || len(free) != 1 {
			t.Errorf("send select took %d", i)
		}
	})
	if res.Deadlock || len(res.Panics) > 0 || len(what) != 2 || what[0] != "timeout" {
		t.Fatalf("what %v deadlock=%v panics=%v blocked=%v", what, res.Deadlock, res.Panics, res.Blocked)
	}
}

func TestSelectNoScheduler(t *testing.T) {
	a := make(chan int, 1)
	a <- 5
	ca := RecvCase(a)
	if Select(false, ca) != 0 || ca.V != 5 || !ca.OK {
		t.Fatalf("free select: %v %v", ca.V, ca.OK)
	}
	if Select(true, RecvCase(a)) != -1 {
		t.Fatalf("free select default")
	}
	select {
	case <-After(time.Millisecond):
	case <-time.After(time.Second):
		t.Fatalf("After without scheduler did not fire")
	}
}

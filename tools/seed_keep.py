#!/usr/bin/env python3
"""usage: seed_keep.py <name e.g. C13-A> <srcdir> <letter> <pkgdir> <test pattern> <needs text> <prop> [<prop>...]
Confirms a sub-agent's change in a scratch worktree, runs the named quick checks against it (isolated copies), and stores
patch, demonstration and meta.json under /verif/seeded/<name>/."""
import sys, subprocess, json, os, shutil, re
name, src, letter, pkg, pat, needs = sys.argv[1:7]
props = sys.argv[7:]
patch = f"{src}/{letter}.patch.diff"; demo = f"{src}/{letter}.demo_test.go"
conf = subprocess.run(["sh", "/verif/tools/seed_confirm.sh", patch, demo, pkg, pat], capture_output=True, text=True)
clines = [l for l in conf.stdout.splitlines() if l.startswith("CONFIRM")]
print("\n".join(clines))
ok = conf.returncode == 0 and clines and clines[-1] == "CONFIRM: OK"
if not ok:
    print("NOT CONFIRMED", conf.stdout[-1500:], conf.stderr[-500:]); sys.exit(1)
ev = subprocess.run(["sh", "/verif/tools/seed_iso.sh", name, patch] + props, capture_output=True, text=True)
print(ev.stdout)
results = {}
for l in ev.stdout.splitlines():
    m = re.match(r"ISO \S+ (\S+) exit=(\d+) (\d+) violation", l)
    if m: results[m.group(1)] = {"exit": int(m.group(2)), "violation_lines": int(m.group(3))}
viol = [l.strip() for l in ev.stdout.splitlines() if l.startswith("  ")][:6]
d = f"/verif/seeded/{name}"
os.makedirs(d, exist_ok=True)
shutil.copy(patch, d + "/patch.diff"); shutil.copy(demo, d + "/demo_test.go")
rd = f"{src}/README.md"
if os.path.exists(rd): shutil.copy(rd, d + "/agent_README.md")
meta = {"name": name, "breaks_property": name.split("-")[0], "needs_to_manifest": needs,
        "demo": {"place_in": pkg, "run": f"go test -count=1 -run '{pat}' ."},
        "confirmed": clines, "how_checks_were_run": "tools/seed_iso.sh: quick checks of the committed /verif on a scratch worktree of /repo HEAD with the patch applied (neither /repo nor /verif touched)", "checks_run": results, "sample_violations": viol,
        "detected_by": [p for p, r in results.items() if r["exit"] == 1],
        "base_commit": subprocess.run(["git", "-C", "/repo", "rev-parse", "--short", "HEAD"], capture_output=True, text=True).stdout.strip()}
try:
    old = json.load(open(d + "/meta.json"))
    for k in ("rebased", "history"):
        if k in old: meta[k] = old[k]
    prev = old.get("detected_by")
    if prev is not None and prev != meta["detected_by"]:
        meta.setdefault("history", []).append({"verif_commit_before": old.get("verif_commit", "0c4a499 or earlier"), "detected_by": prev})
except FileNotFoundError:
    pass
meta["verif_commit"] = os.environ.get("ISO_VERIF_REV") or subprocess.run(["git", "-C", "/verif", "rev-parse", "--short", "HEAD"], capture_output=True, text=True).stdout.strip()
json.dump(meta, open(d + "/meta.json", "w"), indent=1)
print("KEPT", name, "detected_by", meta["detected_by"])

#!/bin/sh
# usage: seed_eval.sh <patch.diff> <property> [<property> ...]
# Applies the change to /repo's working tree, runs the quick checks, and undoes it straight afterwards.
PATCH=$1; shift
cd /verif
if ! git -C /repo apply --3way "$PATCH" 2>/dev/null && ! git -C /repo apply "$PATCH"; then echo "EVAL: patch does not apply to /repo"; exit 2; fi
trap 'git -C /repo reset -q --hard HEAD' EXIT
for P in "$@"; do
  ./bin/vcheck $P --tier quick > /tmp/seed-eval-$$.log 2>&1; RC=$?
  echo "EVAL $P exit=$RC $(grep -c '^VIOLATION' /tmp/seed-eval-$$.log) violation lines"
  grep -A1 '^VIOLATION' /tmp/seed-eval-$$.log | head -6 | cut -c1-300
  [ $RC -eq 2 ] && tail -5 /tmp/seed-eval-$$.log
  tail -1 /tmp/seed-eval-$$.log | cut -c1-200
done
rm -f /tmp/seed-eval-$$.log

#!/usr/bin/env python3
"""usage: seed_batch.py confirm|eval <table.json> [name ...]
table: list of {name, src, letter, pkg, pat, needs, props}. 'confirm' runs tools/seed_confirm.sh for every entry (3 at a
time) and stores patch, demo, agent notes and the confirmation lines under /verif/seeded/<name>/; 'eval' runs the quick
checks named in props against each confirmed entry (tools/seed_iso.sh, one after the other) and records the outcome."""
import sys, json, subprocess, os, shutil, re, concurrent.futures as cf
mode, table = sys.argv[1], json.load(open(sys.argv[2]))
only = set(sys.argv[3:])
if only: table = [t for t in table if t["name"] in only]
def paths(t): return f"{t['src']}/{t['letter']}.patch.diff", f"{t['src']}/{t['letter']}.demo_test.go"
def load(d):
    try: return json.load(open(d + "/meta.json"))
    except FileNotFoundError: return {}
def confirm(t):
    patch, demo = paths(t)
    c = subprocess.run(["sh", "/verif/tools/seed_confirm.sh", patch, demo, t["pkg"], t["pat"]], capture_output=True, text=True)
    cl = [l for l in c.stdout.splitlines() if l.startswith("CONFIRM")]
    ok = c.returncode == 0 and cl and cl[-1] == "CONFIRM: OK"
    d = f"/verif/seeded/{t['name']}"; os.makedirs(d, exist_ok=True)
    shutil.copy(patch, d + "/patch.diff"); shutil.copy(demo, d + "/demo_test.go")
    if os.path.exists(t["src"] + "/README.md"): shutil.copy(t["src"] + "/README.md", d + "/agent_README.md")
    m = load(d)
    m.update({"name": t["name"], "breaks_property": t["name"].split("-")[0], "needs_to_manifest": t["needs"],
              "demo": {"place_in": t["pkg"], "run": f"go test -count=1 -run '{t['pat']}' ."}, "confirmed": cl, "confirmed_ok": bool(ok),
              "base_commit": subprocess.run(["git", "-C", "/repo", "rev-parse", "--short", "HEAD"], capture_output=True, text=True).stdout.strip()})
    json.dump(m, open(d + "/meta.json", "w"), indent=1)
    print(t["name"], "OK" if ok else "NOT CONFIRMED: " + " | ".join(cl[-2:]) + c.stdout[-300:].replace("\n", " / "), flush=True)
if mode == "confirm":
    with cf.ThreadPoolExecutor(3) as ex: list(ex.map(confirm, table))
else:
    for t in table:
        d = f"/verif/seeded/{t['name']}"; m = load(d)
        if not m.get("confirmed_ok"): print(t["name"], "skipped: not confirmed", flush=True); continue
        props = t["props"]
        if os.environ.get("ONLY_OWN"): props = [t["name"][:3]]
        if os.environ.get("ONLY_OTHER"): props = [p for p in t["props"] if p != t["name"][:3] and p not in m.get("checks_run", {})]
        if os.environ.get("IF_MISSED") and m.get("detected_by"): continue
        if not props: continue
        ev = subprocess.run(["sh", "/verif/tools/seed_iso.sh", t["name"], d + "/patch.diff"] + props, capture_output=True, text=True)
        res = m.get("checks_run", {})
        for l in ev.stdout.splitlines():
            mm = re.match(r"ISO \S+ (\S+) exit=(\d+) (\d+) violation", l)
            if mm: res[mm.group(1)] = {"exit": int(mm.group(2)), "violation_lines": int(mm.group(3))}
        viol = [l.strip() for l in ev.stdout.splitlines() if l.startswith("  ")][:6]
        prev = m.get("detected_by")
        m["checks_run"] = res; m["sample_violations"] = viol or m.get("sample_violations", [])
        m["detected_by"] = sorted(p for p, r in res.items() if r["exit"] == 1)
        m["how_checks_were_run"] = "tools/seed_iso.sh: quick checks of the committed /verif on a scratch worktree of /repo HEAD with the patch applied (neither /repo nor /verif touched)"
        if prev is not None and prev != m["detected_by"]:
            m.setdefault("history", []).append({"verif_commit_before": m.get("verif_commit"), "detected_by": prev})
        m["verif_commit"] = subprocess.run(["git", "-C", "/verif", "rev-parse", "--short", "HEAD"], capture_output=True, text=True).stdout.strip()
        json.dump(m, open(d + "/meta.json", "w"), indent=1)
        print(t["name"], "detected_by", m["detected_by"], {k: v["exit"] for k, v in res.items()}, flush=True)

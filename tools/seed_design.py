#!/usr/bin/env python3
"""Prints the DESIGN section 8 table rows for the sub-agent seeds of one round: round 2 = names ending in -C/-D,
round 3 = -E/-F. Usage: seed_design.py 2|3"""
import json, glob, sys, re
suffix = {"1": "AB", "2": "CD", "3": "EF", "4": "GH", "5": "IJ"}[sys.argv[1]]
print("| seed | what it needs in order to manifest | caught by | caught before the extensions it prompted |")
print("|---|---|---|---|")
for m in sorted(glob.glob('/verif/seeded/C??-[%s]/meta.json' % suffix)):
    d = json.load(open(m))
    hist = d.get("history") or []
    before = ", ".join(hist[0]["detected_by"]) if hist else "same"
    if hist and not hist[0]["detected_by"]:
        before = "**none**"
    print(f"| {d['name']} | {d['needs_to_manifest'].replace('|','/')} | {', '.join(d['detected_by']) or '**none**'} | {before} |")

#!/bin/sh
# usage: seed_iso.sh <name> <patch.diff> <property> [<property> ...]
# Isolated evaluation of a seeded change for development: a copy of /verif's committed tree (HEAD) and a scratch
# worktree of /repo HEAD with the patch applied; neither /repo nor /verif is touched. (The recorded
# meta.json results come from tools/seed_keep.py, which applies the patch to /repo itself.)
NAME=$1; PATCH=$2; shift; shift
SNAP=/tmp/iso-verif-$NAME; REPO=/tmp/iso-repo-$NAME
export GOFLAGS=-mod=mod GOPROXY=off GOSUMDB=off GOTOOLCHAIN=local GOCACHE=/verif/.cache/go-build
rm -rf $SNAP; git -C /repo worktree remove --force $REPO 2>/dev/null
git -C /repo worktree add -q --detach $REPO HEAD || exit 2
cleanup() { [ -n "${ISO_KEEP:-}" ] && return; git -C /repo worktree remove --force $REPO; rm -rf $SNAP; }
trap cleanup EXIT
# development only: carry uncommitted /repo files (space separated, relative) into the scratch worktree first
for f in ${ISO_REPO_FILES:-}; do cp /repo/$f $REPO/$f; done
( cd $REPO && (git apply "$PATCH" 2>/dev/null || git apply --3way "$PATCH") ) || { echo "ISO: patch does not apply"; exit 2; }
if [ -n "${ISO_WORKTREE:-}" ]; then
  # development: the working tree as it is now (copied, so later edits cannot break this run)
  mkdir -p $SNAP && rsync -a --exclude .git --exclude .cache --exclude .work --exclude bin --exclude replays --exclude seeded /verif/ $SNAP/
else
  mkdir -p $SNAP && git -C /verif archive ${ISO_VERIF_REV:-HEAD} | tar -x -C $SNAP   # committed state only: edits in progress cannot break a running batch
fi
sed -i "s|=> /repo|=> $REPO|" $SNAP/go.mod
( cd $SNAP && go build -o bin/vcheck ./cmd/vcheck ) || exit 2
for P in "$@"; do
  ( cd $SNAP && VERIF_DIR=$SNAP VERIF_REPO=$REPO VERIF_GOCACHE=/verif/.cache/go-build ./bin/vcheck $P --tier quick ${ISO_ARGS:-} > $SNAP/out.log 2>&1 ); RC=$?
  echo "ISO $NAME $P exit=$RC $(grep -c '^VIOLATION' $SNAP/out.log) violation lines"
  grep -A1 '^VIOLATION' $SNAP/out.log | head -4 | cut -c1-260
  [ $RC -eq 2 ] && tail -8 $SNAP/out.log
  tail -1 $SNAP/out.log | cut -c1-220
done

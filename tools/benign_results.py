#!/usr/bin/env python3
"""Writes /verif/seeded/benign/RESULTS.md from the evaluation logs given as arguments."""
import sys, re, collections
rows = collections.OrderedDict()
for path in sys.argv[1:]:
    for l in open(path):
        m = re.match(r"ISO bn-(\S+) (\S+) exit=(\d+) (\d+) violation", l)
        if m:
            rows.setdefault(m.group(1), {})[m.group(2)] = int(m.group(3))
out = ["# Behaviour-preserving changes and the checks run against them", "",
       "Each row: a change written by a sub-agent that was asked to keep all 20 properties true (suite passing, reasons in",
       "agent_README.md next to the patch), and the quick checks run against it with tools/seed_iso.sh. exit 0 = no alarm,",
       "1 = VIOLATION (a false alarm unless the change turns out not to be benign), 2 = undecided (build or worker failure).", "",
       "| change | checks run (exit) | alarms | undecided |", "|---|---|---|---|"]
fa = 0
for name, r in rows.items():
    al = [p for p, e in r.items() if e == 1]
    un = [p for p, e in r.items() if e not in (0, 1)]
    fa += len(al)
    out.append(f"| {name} | {', '.join(f'{p}:{e}' for p, e in r.items())} | {', '.join(al) or 'none'} | {', '.join(un) or 'none'} |")
out += ["", f"{sum(len(r) for r in rows.values())} runs, {fa} alarms."]
open('/verif/seeded/benign/RESULTS.md', 'w').write("\n".join(out) + "\n")
print(out[-1])

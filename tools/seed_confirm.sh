#!/bin/sh
# usage: seed_confirm.sh <patch.diff> <demo_test.go> <pkg dir relative to repo root> <go test -run pattern>
# Confirms, in a scratch worktree of /repo HEAD (removed afterwards), that the change compiles, vets,
# passes the whole existing suite, and that the demonstration fails with it and passes without it.
set -u
PATCH=$1; DEMO=$2; PKG=$3; PAT=$4
export GOFLAGS=-mod=mod GOPROXY=off GOSUMDB=off GOTOOLCHAIN=local
W=/tmp/confirm-$$
git -C /repo worktree add -q --detach $W HEAD || exit 2
cleanup() { git -C /repo worktree remove --force $W; }
trap cleanup EXIT
cd $W
if ! git apply --3way "$PATCH" 2>/dev/null && ! git apply "$PATCH"; then echo "CONFIRM: patch does not apply"; exit 1; fi
git diff --stat | tail -1
go build ./... || { echo "CONFIRM: build failed"; exit 1; }
go vet ./ ./segment ./fs ./verifier ./migrate ./metadb ./types ./metrics >/dev/null 2>&1 || { echo "CONFIRM: vet failed"; exit 1; }
suite() { go test -count=1 ./... 2>&1 | grep -v '^ok\|no test files' ; }
OUT=$(suite)
# known flakes: segment.TestFrameCodecFuzz (~10%), timing-based verifier tests under heavy machine load
for i in 1 2 3; do
  if echo "$OUT" | grep -q FAIL; then OUT=$(suite); fi
done
if echo "$OUT" | grep -q FAIL; then echo "CONFIRM: suite FAILS with the change:"; echo "$OUT" | head -20; exit 1; fi
echo "CONFIRM: suite passes with the change"
cp "$DEMO" $W/$PKG/zz_seed_demo_test.go
if (cd $W/$PKG && go test -count=1 -run "$PAT" . >/tmp/confirm-with-$$.log 2>&1); then echo "CONFIRM: demo PASSES with the change (bad)"; tail -5 /tmp/confirm-with-$$.log; rm -f /tmp/confirm-with-$$.log; exit 1; fi
echo "CONFIRM: demo fails with the change"; rm -f /tmp/confirm-with-$$.log
git reset -q --hard HEAD
if (cd $W/$PKG && go test -count=1 -run "$PAT" . >/tmp/confirm-wo-$$.log 2>&1); then echo "CONFIRM: demo passes without the change"; else echo "CONFIRM: demo FAILS without the change (bad)"; tail -15 /tmp/confirm-wo-$$.log; rm -f /tmp/confirm-wo-$$.log; exit 1; fi
rm -f /tmp/confirm-wo-$$.log
echo "CONFIRM: OK"

#!/usr/bin/env python3
"""usage: seed_own.py <name> <patch.diff> <what> <prop> [<prop>...]
Own deliberate property-breaking change: checks in a scratch worktree that it builds and that the
repository's suite still passes, evaluates the named quick checks on isolated copies (tools/seed_iso.sh)
and records the outcome under /verif/seeded/own-<name>/."""
import sys, subprocess, json, os, shutil, re
name, patch, what = sys.argv[1:4]
props = sys.argv[4:]
env = dict(os.environ, GOFLAGS="-mod=mod", GOPROXY="off", GOSUMDB="off", GOTOOLCHAIN="local")
W = f"/tmp/own-confirm-{name}"
subprocess.run(["git", "-C", "/repo", "worktree", "remove", "--force", W], capture_output=True)
subprocess.run(["git", "-C", "/repo", "worktree", "add", "-q", "--detach", W, "HEAD"], check=True)
suite = "not run"
try:
    r = subprocess.run(["git", "apply", patch], cwd=W, capture_output=True, text=True)
    if r.returncode != 0:
        print("patch does not apply", r.stderr); sys.exit(1)
    r = subprocess.run(["go", "build", "./..."], cwd=W, env=env, capture_output=True, text=True)
    if r.returncode != 0:
        print("build fails", r.stderr[-500:]); sys.exit(1)
    for attempt in range(2):
        r = subprocess.run(["go", "test", "-count=1", "./..."], cwd=W, env=env, capture_output=True, text=True)
        bad = [l for l in r.stdout.splitlines() if l.startswith("FAIL") or l.startswith("--- FAIL")]
        if not bad:
            break
    suite = "passes" if not bad else "FAILS: " + "; ".join(bad[:4])
finally:
    subprocess.run(["git", "-C", "/repo", "worktree", "remove", "--force", W], capture_output=True)
print("suite with the change:", suite)
ev = subprocess.run(["sh", "/verif/tools/seed_iso.sh", "own-" + name, patch] + props, capture_output=True, text=True)
print(ev.stdout[-3000:])
results = {}
for l in ev.stdout.splitlines():
    m = re.match(r"ISO \S+ (\S+) exit=(\d+) (\d+) violation", l)
    if m: results[m.group(1)] = {"exit": int(m.group(2)), "violation_lines": int(m.group(3))}
viol = [l.strip() for l in ev.stdout.splitlines() if l.startswith("  ")][:6]
d = f"/verif/seeded/own-{name}"
os.makedirs(d, exist_ok=True)
shutil.copy(patch, d + "/patch.diff")
meta = {"name": "own-" + name, "origin": "own deliberate change (not from a sub-agent)", "what": what,
        "repository_suite_with_change": suite, "checks_run_isolated": results, "sample_violations": viol,
        "detected_by": [p for p, r in results.items() if r["exit"] == 1],
        "base_commit": subprocess.run(["git", "-C", "/repo", "rev-parse", "--short", "HEAD"], capture_output=True, text=True).stdout.strip()}
json.dump(meta, open(d + "/meta.json", "w"), indent=1)
print("RECORDED own-" + name, "suite:", suite, "detected_by", meta["detected_by"])

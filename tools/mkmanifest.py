#!/usr/bin/env python3
"""Regenerates MANIFEST.json from the table below (single source of truth)."""
import json
BASELINE_CMD = "for m in $(cat /w/out/gomods.txt); do MF=$(cd /repo/$m && . /w/out/goenv.sh && gomodflag); (cd /repo/$m && go test $MF -json -vet=off -count=1 -timeout 25m ./...); done"
crash_note = "Trusted base: the simulated-disk persistence model (fsync/dir-fsync semantics, 8-byte torn-write granularity), simMeta standing in for bbolt (atomic durable commits), the reference model of the log, the Go toolchain. Bounds (alphabet, depth, caps, deadline) are reported in the evidence; beyond them nothing is claimed."
checks = {
 "C01": dict(engine="crash", text="Explicit-state search over crash images of the real wal+segment+fs code on a simulated OS: every workload up to the level bound, every I/O boundary, every subset of un-fsynced chunks / pending dir ops / length changes (capped per point), nested crashes; oracle: every acknowledged entry survives and is bracketed by First/LastIndex.", ref="4/C01, 3.2", note=crash_note),
 "C02": dict(engine="crash", text="Same search, append-only alphabets to crash-nesting depth 3 (stale frames of earlier torn batches stay behind the tail); oracle: recovered range contiguous, each index returns the most recently submitted content, in-flight batch all-or-nothing.", ref="4/C02, 3.2", note=crash_note),
 "C03": dict(engine="crash", text="Same search with a writability continuation on every recovered image (append at LastIndex+1, stable write, clean reopen, tail and head truncation, re-append, reopen) checked step by step against the model.", ref="4/C03, 3.2", note=crash_note),
 "C04": dict(engine="crash", text="Same search with truncation-heavy alphabets (every prefix/suffix shape on and off segment boundaries, re-append of different content after tail truncation); oracle: acknowledged DeleteRange stays applied, interrupted one is all-or-nothing, re-appended entries never displaced by the older generation.", ref="4/C04, 3.2", note=crash_note),
}
seq_note = "Trusted base: the reference models (contiguous map, stable map, metrics totals), simMeta and the simulated disk for the deep runs (bound to real fs + bbolt by the step-by-step conformance runs), the Go toolchain. Bounds are in the evidence."
sched_note = "Trusted base: the cooperative scheduler and shims (sequentially consistent interleavings at sync/atomic/channel/go/I-O points), the AST rewriter that installs them, simMeta, the reference model and interval oracle. Data races are left to the separate free-running -race pass, which is sampling and is not what decides the property."
checks.update({
 "C05": dict(engine="seq", text="Every operation sequence up to the depth bound over a model-dependent alphabet (valid/invalid appends, all DeleteRange shapes, reopen) on three segment geometries, compared with the contiguous-map model after every step and after a final reopen; shallow sequences also on real fs + bbolt with step-by-step agreement.", ref="4/C05, 3.4", note=seq_note),
 "C06": dict(engine="sched", text="All schedules up to the preemption bound of six 2-3 thread scenarios (sealing append + rotation, head/tail truncation, re-append of different content, base-index reset, two readers) of the real code under a cooperative scheduler; each read must equal the model's answer in a version current during the call, new entries only after their fsync, errors only for indexes truncated during the read.", ref="4/C06, 3.3", note=sched_note),
 "C08": dict(engine="seq+crash", text="Stable-store operations interleaved with log operations: all sequences to the depth bound against a map model (incl. GetUint64 semantics) on simulated and real bbolt stacks, plus crash images after acknowledged Sets.", ref="4/C08", note=seq_note + " " + crash_note),
 "C13": dict(engine="seq+crash", text="Directory listing compared with the committed metadata after every step of every sequence and after every recovery of every crash image; segment-ID allocation checked on every metadata commit; no create ever collides.", ref="4/C13", note=seq_note + " " + crash_note),
 "C14": dict(engine="sched", text="All schedules up to the preemption bound of Close against StoreLogs, a pending rotation, DeleteRange (head/tail), reads, stable operations, a second Close and a writer+reader mix; no panic, no deadlock, answers correct or ErrClosed, everything ErrClosed afterwards, rotation goroutine gone, handles released, acknowledged entries present after reopen.", ref="4/C14, 3.3", note=sched_note),
 "C20": dict(engine="seq", text="All sequences to the depth bound with AtomicCollectors built from the published definitions (undeclared names panic); counters compared after every step with the totals of the calls issued; plus the finite set of emitting call sites from go/ast.", ref="4/C20", note=seq_note),
})
enum_note = "Trusted base: the harness's own equality/reference code and the Go toolchain; the enumerated menus are stated in the evidence bounds and nothing outside them is claimed."
checks.update({
 "C12": dict(engine="enum", text="Boundary-value products through Encode/Decode and StoreLogs/GetLog, buffer-aliasing checks with a deterministic pool, codec-ID matrix across create/reopen.", ref="4/C12", note=enum_note),
 "C15": dict(engine="enum", text="Size neighbourhoods (0, 64 KiB buffer, segment limit, 64 MiB maximum) x segment size x batch position: accepted implies readable before and after reopen, refused implies unchanged.", ref="4/C15", note=enum_note),
 "C19": dict(engine="enum", text="Full product of source contents, batch sizes, store pairings and cancellation points through CopyLogs/CopyStable, destination compared with source.", ref="4/C19", note=enum_note),
})
cl_note = "Trusted base: the cluster driver (a simplified replication protocol: conflict = different term at the same index), the ground-truth comparison, raft.InmemStore, the scheduler shims. 64-bit hash collisions are excluded by the property itself."
checks.update({
 "C16": dict(engine="cluster", text="BFS over multi-node replication histories (batch splits, leadership changes with conflicting suffixes, restarts, truncations) on real verifier.LogStores; a report on a range the node holds and reads back exactly as the leader wrote it must not carry ErrChecksumMismatch; a node lacking part of the range must report ErrRangeMismatch.", ref="4/C16", note=cl_note),
 "C17": dict(engine="cluster", text="For every explored history ending in delivered reports: every position x single-field mutation x {in flight, at rest}; the report must carry ErrChecksumMismatch, and blame in-flight corruption only when the node was handed different bytes.", ref="4/C17", note=cl_note),
 "C18": dict(engine="twin+sched", text="Middleware vs twin store over all operation sequences to the depth bound (pass-through equivalence, checkpoint metadata, foreign Extensions refused, drop/skip accounting) and all schedules up to the preemption bound with a blocked ReportFn (StoreLogs never blocked; delivered + dropped = checkpoints; SkippedRange names the gap).", ref="4/C18", note=cl_note + " " + sched_note),
})
checks.update({
 "C09": dict(engine="format", text="Independent encoder/decoder (README only) reproduces every segment file byte for byte after every step of every sequence to the depth bound and decodes it back to the model; metadata record checked for the documented JSON shape; golden directories written by the pinned version open with identical contents and stay independently decodable after the current tree appends to them; the same end-state decoding after every recovery of short crash workloads and after every faulted run of the fault engine.", ref="4/C09, 3.6", note="Trusted base: verif/fmtspec (independent format implementation), the golden fixtures (written by the pinned commit with tools/goldengen), bbolt for reading the fixture metadata, the reference model."),
 "C10": dict(engine="fault", text="Every I/O step of short workloads fails in turn (three flavours, transient and persistent), the workload continues (retry, append, stable write), faults are cleared and the WAL is reopened; acknowledged entries must be intact in process and after reopen, failed appends invisible, failed calls all-or-nothing after reopen; at every acknowledgement the bytes written are fsynced and a newly created file has had a successful directory fsync; after the run every whole-write power-loss image opens and holds what was acknowledged.", ref="4/C10, 3.2", note=crash_note),
})
checks.update({
 "C11": dict(engine="mut", text="Full single/pair mutation menu over small base directories and the metadata record, each mutant opened, read, dumped and closed by the real code: no panic, termination, allocation bounded by directory size + MaxEntrySize; damaged entry encodings must decode to an error; missing/short/foreign-header sealed segments must fail Open; a failed Open on the real stack must not leave the directory locked.", ref="4/C11, 3.6", note=enum_note),
})
checks.update({
 "C07": dict(engine="trace", text="All workloads to the depth bound run on the production fs + bbolt under strace; a monitor automaton checks on every path: no StoreLogs ack with un-fsynced segment writes, directory fsync before the first ack into a new segment, directory fsync after every unlink, O_EXCL + preallocation + zero fill, tmp/rename/dir-fsync creation of wal-meta.db, synced metadata at every ack; and the simulated OS's event sequence equals the kernel's; on the simulated OS the same acknowledgement rules are evaluated under every injected failure (fault engine), with what Create hands out and Filer.Delete under failing steps.", ref="4/C07, 3.4, 3.2", note="Trusted base: strace and the kernel's view of the process, the monitor automaton, the marker protocol of the traced child."),
})
technique = {
 "trace": "exhaustive workload enumeration with a trace-monitor automaton over kernel-level system-call traces, plus trace conformance of the simulated OS",
 "mut": "exhaustive enumeration of a bounded mutation menu on the real code",
 "format": "bounded-exhaustive operation sequences with an independent reimplementation of the on-disk format as oracle, plus golden fixtures",
 "fault": "exhaustive fault-position enumeration on the real code against a set-valued reference model",
 "cluster": "explicit-state breadth-first search over cluster histories with transitions executed on the real verifier middleware",
 "twin+sched": "bounded-exhaustive operation sequences against a twin store plus preemption-bounded exhaustive schedule exploration",
 "enum": "bounded-exhaustive enumeration of the stated input/configuration product on the real code against a reference",
 "seq": "bounded-exhaustive enumeration of operation sequences on the real code against a reference model",
 "sched": "stateless model checking: preemption-bounded exhaustive schedule exploration under a cooperative scheduler",
 "seq+crash": "bounded-exhaustive operation sequences against a reference model plus explicit-state model checking of crash images",
 "crash": "explicit-state model checking of crash images (all torn-write subsets at every I/O boundary, nested) on the real code over a simulated disk",
}
not_applicable = []
ALL = ["C%02d" % i for i in range(1, 21)]
pending_reason = "check not built yet in this revision of /verif (planned in DESIGN.md section 4); not claimed until its engine exists and has been shown to detect seeded changes"
m = {
 "version": 1,
 "setup_cmd": "sh /verif/setup.sh",
 "hooks": {"guard": "verif", "enable": "checks build /repo's working tree with `go build -tags verif -overlay <generated>`: the overlay (verif/rewrite) redirects fs's os/ioutil/fileutil imports to a simulated OS and sync, sync/atomic, channel operations and go statements of wal, segment, verifier and fs to a cooperative scheduler; no source under /repo is modified", "baseline_off_cmd": BASELINE_CMD, "source_commits": [], "add_only": True},
 "engines": [
  {"name": "crash", "path": "harness/core/crash.go", "serves_properties": ["C01", "C02", "C03", "C04", "C08", "C13"], "kind_free_text": "explicit-state search over durable disk images with exhaustive crash-image enumeration"},
  {"name": "seq", "path": "harness/core/seq.go", "serves_properties": ["C05", "C08", "C13", "C20"], "kind_free_text": "bounded-exhaustive operation sequences vs reference model, simulated and real stacks"},
  {"name": "enum", "path": "harness/worker/codec.go, harness/worker/migrate.go", "serves_properties": ["C12", "C15", "C19"], "kind_free_text": "exhaustive product enumeration of boundary menus"},
  {"name": "trace", "path": "harness/core/trace.go, harness/worker/trace.go", "serves_properties": ["C07"], "kind_free_text": "strace-based fsync-discipline monitor + sim/real event conformance"},
  {"name": "mut", "path": "harness/worker/mut.go", "serves_properties": ["C11"], "kind_free_text": "exhaustive bounded mutation of stored bytes"},
  {"name": "format", "path": "harness/worker/format.go, fmtspec/", "serves_properties": ["C09"], "kind_free_text": "independent format implementation + golden fixtures"},
  {"name": "fault", "path": "harness/core/fault.go", "serves_properties": ["C10"], "kind_free_text": "exhaustive I/O fault position enumeration"},
  {"name": "cluster", "path": "harness/core/vcluster.go, harness/core/vtwin.go", "serves_properties": ["C16", "C17", "C18"], "kind_free_text": "BFS over verifier cluster histories; twin-store sequences; blocked-ReportFn schedules"},
  {"name": "sched", "path": "harness/core/sched.go", "serves_properties": ["C06", "C14"], "kind_free_text": "cooperative scheduler + preemption-bounded DFS over rewritten sources"},
 ],
 "checks": [],
 "notes": "All checks are `bin/vcheck <id> --tier <tier>`; exit 2 means undecided (build/harness failure), never a violation. known_findings.json lists fixed and known defects.",
 "not_applicable": [],
}
for pid in ALL:
    if pid in checks:
        c = checks[pid]
        m["checks"].append({
            "property_id": pid,
            "quick_cmd": "./bin/vcheck %s --tier quick" % pid,
            "thorough_cmd": "./bin/vcheck %s --tier thorough" % pid,
            "evidence_file": "/verif/evidence/%s.json" % pid,
            "replay_cmd_template": "./bin/vcheck replay {path}",
            "engine": c["engine"],
            "level_claimed": {"category": "model_checking", "text": c["text"], "design_ref": c["ref"]},
            "level_note": c["note"],
            "technique": technique[c["engine"]],
        })
    else:
        m["not_applicable"].append({"property_id": pid, "reason": pending_reason})
json.dump(m, open("/verif/MANIFEST.json", "w"), indent=1)
print("wrote MANIFEST.json with", len(m["checks"]), "checks")

#!/usr/bin/env python3
"""Summarise a worker shard result file: counts and finding classes."""
import json,re,collections,sys
r=json.load(open(sys.argv[1]))
print({k:v for k,v in r.items() if k in('counts','maxes','hists','exhaustive','bounds','wall_s','notes')})
c=collections.Counter(); ex={}
for f in r['findings'] or []:
    k=(f['property'],(f.get('config') or {}).get('seg_size'),re.sub(r'\d+','N',f['msg'])[:140])
    c[k]+=1; ex.setdefault(k,f)
def ops(os): return ' '.join((o['k']+str(o.get('idx',''))+str(o.get('sizes',''))+'g'+str(o.get('gen',0))) if o['k']=='A' else (o['k']+str(o.get('min',''))+'-'+str(o.get('max',''))) for o in os or [])
for k,v in c.items():
    print(v,k)
    f=ex[k]
    print('      msg:',f['msg'][:600])
    for p in f.get('path') or []: print('     ',ops(p['ops']),'@',p['crash_before_log_index'],p.get('variant'),p['image_desc'],'|',p['pending'])
    if f.get('final_ops'): print('      final',ops(f.get('final_ops')))
    if f.get('observed'): print('      obs:',f.get('observed'),'\n      legal:',f.get('legal'))
    if f.get('extra'): print('      extra:',json.dumps(f['extra'])[:600])

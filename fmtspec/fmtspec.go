// Package fmtspec is an independent implementation of the raft-wal on-disk
// format, written from the README's "Storage Format" section and the doc
// comments of BinaryCodec. It imports nothing from the repository.
//
// One point where the pinned implementation (and therefore every directory in
// the field, see /verif/golden) differs from the README's wording is kept the
// implementation's way: the CRC of a file's first commit frame also covers the
// 32-byte file header ("all bytes written since the last fsync").
package fmtspec

import (
	"encoding/binary"
	"errors"
	"fmt"
	"hash/crc32"
	"time"
)

const (
	Magic        = 0x58eb6b0d
	HeaderLen    = 32
	FrameHdrLen  = 8
	TypeInvalid  = 0
	TypeEntry    = 1
	TypeIndex    = 2
	TypeCommit   = 3
	MaxEntrySize = 64 << 20
)

var castagnoli = crc32.MakeTable(crc32.Castagnoli)

// FileName is "<BaseIndex, decimal, 20 wide>-<SegmentID, lower-case hex, 16 wide>.wal".
func FileName(baseIndex, id uint64) string {
	return fmt.Sprintf("%020d-%016x.wal", baseIndex, id)
}

func pad8(n int) int { return (8 - n%8) % 8 }

// Header is the 32-byte file header.
type Header struct {
	BaseIndex, ID, Codec uint64
}

func EncodeHeader(h Header) []byte {
	b := make([]byte, HeaderLen)
	binary.LittleEndian.PutUint32(b[0:4], Magic)
	// b[4:7] reserved, b[7] version 0
	binary.LittleEndian.PutUint64(b[8:16], h.BaseIndex)
	binary.LittleEndian.PutUint64(b[16:24], h.ID)
	binary.LittleEndian.PutUint64(b[24:32], h.Codec)
	return b
}

func DecodeHeader(b []byte) (Header, error) {
	var h Header
	if len(b) < HeaderLen {
		return h, errors.New("short header")
	}
	if binary.LittleEndian.Uint32(b[0:4]) != Magic {
		return h, fmt.Errorf("bad magic %x", b[0:4])
	}
	if b[4] != 0 || b[5] != 0 || b[6] != 0 {
		return h, fmt.Errorf("reserved header bytes not zero: %x", b[4:7])
	}
	if b[7] != 0 {
		return h, fmt.Errorf("unknown version %d", b[7])
	}
	h.BaseIndex = binary.LittleEndian.Uint64(b[8:16])
	h.ID = binary.LittleEndian.Uint64(b[16:24])
	h.Codec = binary.LittleEndian.Uint64(b[24:32])
	return h, nil
}

func frame(typ byte, lenOrCRC uint32, payload []byte) []byte {
	b := make([]byte, FrameHdrLen+len(payload)+pad8(len(payload)))
	b[0] = typ
	binary.LittleEndian.PutUint32(b[4:8], lenOrCRC)
	copy(b[FrameHdrLen:], payload)
	return b
}

// Batch is one acknowledged append: its entry payloads in order. Seal says an
// index frame precedes the batch's commit frame (the batch that fills the
// segment, or a forced seal which has no entries).
type Batch struct {
	Payloads [][]byte
	Seal     bool
}

// EncodeSegment produces the file content up to and including the last commit
// frame, and the IndexStart (offset of the index array) if sealed, else 0.
func EncodeSegment(h Header, batches []Batch) (file []byte, indexStart uint64) {
	file = append(file, EncodeHeader(h)...)
	crcFrom := 0 // first commit covers the header too
	var offsets []uint32
	for _, b := range batches {
		for _, p := range b.Payloads {
			offsets = append(offsets, uint32(len(file)))
			file = append(file, frame(TypeEntry, uint32(len(p)), p)...)
		}
		if b.Seal {
			arr := make([]byte, 4*len(offsets))
			for i, o := range offsets {
				binary.LittleEndian.PutUint32(arr[4*i:], o)
			}
			indexStart = uint64(len(file) + FrameHdrLen)
			file = append(file, frame(TypeIndex, uint32(len(arr)), arr)...)
		}
		crc := crc32.Checksum(file[crcFrom:], castagnoli)
		file = append(file, frame(TypeCommit, crc, nil)...)
		crcFrom = len(file)
	}
	return file, indexStart
}

// Decoded is what an independent reader finds in a segment file.
type Decoded struct {
	Header      Header
	Payloads    [][]byte // committed entry payloads in order (index = BaseIndex + position)
	Offsets     []uint32 // file offset of each committed entry frame
	Commits     int
	IndexStart  uint64   // offset of the index array of a committed index frame, 0 if none
	IndexArr    []uint32 // the committed index array
	End         int      // offset just after the last valid commit frame
	Uncommitted int      // entry frames after the last commit (ignored)
	IndexFrames int      // committed index frames (a sealed segment has exactly one, an unsealed one none)
	Frames      string   // the frame types walked, e.g. "E E C E I C" (for messages)
}

// DecodeSegment walks the frames, verifying every commit's CRC. It stops at the
// first zero / invalid header or CRC failure; only committed batches count.
func DecodeSegment(b []byte) (*Decoded, error) {
	d := &Decoded{}
	h, err := DecodeHeader(b)
	if err != nil {
		return nil, err
	}
	d.Header = h
	off := HeaderLen
	crcFrom := 0
	var pendP [][]byte
	var pendO []uint32
	var pendIdxStart uint64
	var pendIdx []uint32
	pendIdxN := 0
	d.End = 0
	for off+FrameHdrLen <= len(b) {
		typ := b[off]
		if b[off+1] != 0 || b[off+2] != 0 || b[off+3] != 0 {
			break
		}
		v := binary.LittleEndian.Uint32(b[off+4 : off+8])
		switch typ {
		case TypeEntry, TypeIndex:
			if v > MaxEntrySize {
				return d, fmt.Errorf("frame at %d: length %d too large", off, v)
			}
			end := off + FrameHdrLen + int(v) + pad8(int(v))
			if end > len(b) {
				goto done
			}
			for _, z := range b[off+FrameHdrLen+int(v) : end] {
				if z != 0 {
					return d, fmt.Errorf("frame at %d: padding not zero", off)
				}
			}
			payload := b[off+FrameHdrLen : off+FrameHdrLen+int(v)]
			d.Frames += map[bool]string{true: "E", false: "I"}[typ == TypeEntry] + fmt.Sprintf("@%d ", off)
			if typ == TypeEntry {
				pendP = append(pendP, payload)
				pendO = append(pendO, uint32(off))
			} else {
				if v%4 != 0 {
					return d, fmt.Errorf("index frame at %d: length %d not a multiple of 4", off, v)
				}
				pendIdxStart = uint64(off + FrameHdrLen)
				pendIdx = nil
				pendIdxN++
				for i := 0; i < int(v); i += 4 {
					pendIdx = append(pendIdx, binary.LittleEndian.Uint32(payload[i:]))
				}
			}
			off = end
		case TypeCommit:
			if crc32.Checksum(b[crcFrom:off], castagnoli) != v {
				goto done
			}
			d.Frames += fmt.Sprintf("C@%d ", off)
			off += FrameHdrLen
			crcFrom = off
			d.Payloads = append(d.Payloads, pendP...)
			d.Offsets = append(d.Offsets, pendO...)
			pendP, pendO = nil, nil
			if pendIdxStart != 0 {
				d.IndexStart, d.IndexArr = pendIdxStart, pendIdx
				pendIdxStart, pendIdx = 0, nil
			}
			d.IndexFrames += pendIdxN
			pendIdxN = 0
			d.Commits++
			d.End = off
		default:
			goto done
		}
	}
done:
	d.Uncommitted = len(pendP)
	return d, nil
}

// ---------------------------------------------------------------------------
// Entry payload: the BinaryCodec layout (uvarint Index, Term, Type; uvarint
// length-prefixed Data and Extensions; time.MarshalBinary of AppendedAt).

type Log struct {
	Index, Term uint64
	Type        uint8
	Data, Ext   []byte
	At          time.Time
}

func EncodeLog(l Log) ([]byte, error) {
	var b []byte
	b = binary.AppendUvarint(b, l.Index)
	b = binary.AppendUvarint(b, l.Term)
	b = binary.AppendUvarint(b, uint64(l.Type))
	b = binary.AppendUvarint(b, uint64(len(l.Data)))
	b = append(b, l.Data...)
	b = binary.AppendUvarint(b, uint64(len(l.Ext)))
	b = append(b, l.Ext...)
	t, err := l.At.MarshalBinary()
	if err != nil {
		return nil, err
	}
	return append(b, t...), nil
}

func DecodeLog(b []byte) (Log, error) {
	var l Log
	next := func() (uint64, error) {
		v, n := binary.Uvarint(b)
		if n <= 0 {
			return 0, errors.New("bad uvarint")
		}
		b = b[n:]
		return v, nil
	}
	var err error
	if l.Index, err = next(); err != nil {
		return l, err
	}
	if l.Term, err = next(); err != nil {
		return l, err
	}
	ty, err := next()
	if err != nil {
		return l, err
	}
	if ty > 255 {
		return l, errors.New("type out of range")
	}
	l.Type = uint8(ty)
	bytesField := func() ([]byte, error) {
		n, err := next()
		if err != nil {
			return nil, err
		}
		if n > uint64(len(b)) {
			return nil, errors.New("short buffer")
		}
		out := append([]byte(nil), b[:n]...)
		b = b[n:]
		return out, nil
	}
	if l.Data, err = bytesField(); err != nil {
		return l, err
	}
	if l.Ext, err = bytesField(); err != nil {
		return l, err
	}
	if err := l.At.UnmarshalBinary(b); err != nil {
		return l, err
	}
	return l, nil
}

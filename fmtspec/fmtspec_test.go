package fmtspec

import (
	"bytes"
	"testing"
	"time"
)

func TestRoundTrip(t *testing.T) {
	var batches []Batch
	idx := uint64(7)
	for i := 0; i < 5; i++ {
		var b Batch
		for j := 0; j <= i%3; j++ {
			p, _ := EncodeLog(Log{Index: idx, Term: 3, Data: bytes.Repeat([]byte{byte(idx)}, int(idx)%9), At: time.Unix(int64(idx), 0).UTC()})
			b.Payloads = append(b.Payloads, p)
			idx++
		}
		b.Seal = i == 4
		batches = append(batches, b)
	}
	f, is := EncodeSegment(Header{BaseIndex: 7, ID: 4, Codec: 0}, batches)
	d, err := DecodeSegment(append(f, make([]byte, 64)...))
	if err != nil {
		t.Fatal(err)
	}
	if d.IndexStart != is || d.Commits != 5 || len(d.Payloads) != int(idx-7) || d.End != len(f) {
		t.Fatalf("%+v is=%d len=%d", d, is, len(f))
	}
	for i, o := range d.IndexArr {
		if o != d.Offsets[i] {
			t.Fatal("index mismatch")
		}
	}
	l, err := DecodeLog(d.Payloads[2])
	if err != nil || l.Index != 9 {
		t.Fatal(l, err)
	}
}

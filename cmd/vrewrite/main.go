package main

import (
	"flag"
	"fmt"
	"os"

	"verif/rewrite"
)

func main() {
	repo := flag.String("repo", "/repo", "")
	out := flag.String("out", "/verif/.work/overlay", "")
	mode := flag.String("mode", "full", "")
	flag.Parse()
	r, err := rewrite.Build(rewrite.Options{Repo: *repo, OutDir: *out, Mode: *mode, Tags: []string{"verif"}})
	if err != nil {
		fmt.Fprintln(os.Stderr, "rewrite:", err)
		os.Exit(2)
	}
	fmt.Println(r.OverlayFile, r.Files, r.Sites)
}

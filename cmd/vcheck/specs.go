package main

var crashAssume = []string{
	"disk model: an fsync makes exactly that file's pending 8-byte chunks and length durable, a directory fsync makes pending entry operations durable; un-fsynced chunks land in any subset (no garbled sectors)",
	"the metadata store (bbolt in production) commits atomically and durably; it is replaced by simMeta, whose conformance with bbolt is checked by the C05/C08 real-stack runs",
	"background rotation runs to completion between foreground calls (recorded under the scheduler's default schedule); crash points inside it are enumerated like any other",
	"payload values come from a 3-size alphabet (frames of 32/40/48 bytes) chosen so that commit frames of short batches land on frame boundaries of longer stale ones",
}

func init() {
	crashRule := "explicit-state search over durable disk images: from every image, every workload up to the level's length bound over the level's alphabet is recorded once on the real wal+segment+fs code over a simulated OS; at every I/O boundary every crash image (every subset of un-fsynced 8-byte chunks x pending directory operations x pending length changes, capped per crash point) is recovered with the real Open and compared with the models legal at that point; an image is non-trivial when at least one pending item landed and at least one did not"
	for _, id := range []string{"C01", "C02", "C03", "C04"} {
		reg(&spec{ID: id, Overlay: "full", Shards: [2]int{16, 16}, BudgetS: [2]int{45, 900}, Level: "model_checking",
			Rule: crashRule, Assume: crashAssume,
			Technique: "explicit-state model checking of crash images (all torn-write subsets at every I/O boundary, nested) on the real code over a simulated disk"})
	}
}

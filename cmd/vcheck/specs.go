package main

var crashAssume = []string{
	"disk model: an fsync makes exactly that file's pending 8-byte chunks and length durable, a directory fsync makes pending entry operations durable; un-fsynced chunks land in any subset (no garbled sectors)",
	"the metadata store (bbolt in production) commits atomically and durably; it is replaced by simMeta, whose conformance with bbolt is checked by the C05/C08 real-stack runs",
	"background rotation runs to completion between foreground calls (recorded under the scheduler's default schedule); crash points inside it are enumerated like any other",
	"payload values come from a 3-size alphabet (frames of 32/40/48 bytes) chosen so that commit frames of short batches land on frame boundaries of longer stale ones",
}

func init() {
	crashRule := "explicit-state search over durable disk images: from every image, every workload up to the level's length bound over the level's alphabet is recorded once on the real wal+segment+fs code over a simulated OS; at every I/O boundary every crash image (every subset of un-fsynced 8-byte chunks x pending directory operations x pending length changes, capped per crash point) is recovered with the real Open and compared with the models legal at that point; an image is non-trivial when at least one pending item landed and at least one did not"
	seqRule := "every operation sequence of length 1..depth over a model-dependent alphabet (valid and invalid appends, every DeleteRange shape, stable-store operations, clean reopen), each followed by a clean reopen, executed on the real code (simulated disk; up to real_stack_depth also on the real filesystem with real bbolt, answers compared step by step) and compared with the reference model after every step; a sequence is non-trivial when it ends with a non-empty log"
	seqAssume := []string{"sequential use (one caller); background rotation completes between calls", "entry payloads from a small size alphabet; stable keys k1,k2", "simulated disk + simMeta for the deep runs; real fs + bbolt for the shallow conformance runs"}
	reg(&spec{ID: "C05", Overlay: "full", Shards: [2]int{16, 16}, BudgetS: [2]int{45, 900}, Level: "model_checking", Rule: seqRule, Assume: seqAssume,
		Technique: "bounded-exhaustive enumeration of operation sequences on the real code against a reference model, with step-by-step conformance of the simulated stack against real fs+bbolt"})
	reg(&spec{ID: "C20", Overlay: "full", Shards: [2]int{16, 16}, BudgetS: [2]int{30, 600}, Level: "model_checking", Rule: seqRule + "; AtomicCollector built from the published definitions (an undeclared name panics), counters compared with the totals of the calls the harness issued; plus the finite set of IncrementCounter/SetGauge call sites from go/ast", Assume: seqAssume,
		Technique: "bounded-exhaustive enumeration of operation sequences with a metrics reference model, plus exhaustive enumeration of emitting call sites"})
	schedAssume := []string{"sequentially consistent interleavings at synchronisation operations (mutex, atomic, channel, spawn) and simulated-disk I/O calls; unsynchronised accesses are left to the separate free-running -race pass", "scenarios are closed 2-3 thread harnesses with 1-3 operations per thread on colliding indexes; simMeta stands in for bbolt"}
	schedRule := "stateless depth-first exploration of every schedule of each scenario up to the preemption bound (iterative context bounding), every sync/atomic/channel/go operation of wal, segment, fs and every simulated I/O call being a scheduling point; each complete execution's invocation/response history is checked against the versions of the reference model current during each call; distinct = distinct observed histories"
	reg(&spec{ID: "C06", Overlay: "full", Race: true, Shards: [2]int{16, 16}, BudgetS: [2]int{60, 900}, Level: "model_checking", Rule: schedRule, Assume: schedAssume,
		Technique: "stateless model checking: preemption-bounded exhaustive schedule exploration of the real code under a cooperative scheduler, interval-linearizability oracle; separate free-running race-detector pass"})
	reg(&spec{ID: "C14", Overlay: "full", Shards: [2]int{16, 16}, BudgetS: [2]int{60, 900}, Level: "model_checking", Rule: schedRule, Assume: schedAssume,
		Technique: "stateless model checking: preemption-bounded exhaustive schedule exploration of Close against every API call under a cooperative scheduler"})
	clAssume := []string{"2 nodes (quick) / 3 nodes (thorough), verifier.LogStore over raft.InmemStore; verifier goroutines run to quiescence after every event (ranges are not modified while verified)", "entry content is a function of (index, term); index-1 configuration entries are outside the alphabet (exempted by design)", "state de-duplication reads the middleware's private checksum/sumStartIdx through reflection; if the fields are missing no states are merged"}
	clRule := "breadth-first explicit-state search over cluster event sequences (leader append normal/checkpoint, batch 1-2; replicate all/one entry, one batch/split; leadership change with conflicting suffix => follower DeleteRange + re-append; middleware restart; head truncation), each successor obtained by replaying the history on a fresh cluster of real verifier.LogStores plus one event; every delivered report is compared with the ground truth (entries the checkpointing leader held vs entries the node stores and reads back); a state is non-trivial when the event that produced it delivered a report"
	reg(&spec{ID: "C16", Overlay: "full", Shards: [2]int{1, 1}, BudgetS: [2]int{60, 900}, Level: "model_checking", Rule: clRule, Assume: clAssume,
		Technique: "explicit-state breadth-first search over cluster histories, transitions executed on the real verifier middleware"})
	reg(&spec{ID: "C17", Overlay: "full", Shards: [2]int{16, 16}, BudgetS: [2]int{60, 900}, Level: "model_checking", Rule: clRule + "; then for every history whose last event delivered reports: every position (first, middle, checkpoint's predecessor) x every single-field mutation (term+-1, type, data bit flip/truncate/extend/nil, extensions bit flip/add, index+1, swapped neighbours) x {in flight into the node, at rest on the node}, requiring ErrChecksumMismatch and an 'in-flight' verdict only when the node was handed different bytes", Assume: clAssume,
		Technique: "explicit-state search over cluster histories plus exhaustive single-field mutation menu on the real verifier middleware"})
	reg(&spec{ID: "C18", Overlay: "full", Shards: [2]int{16, 16}, BudgetS: [2]int{60, 600}, Level: "model_checking",
		Rule: "every operation sequence to the depth bound (appends normal/gapped/with checkpoint whose Extensions are empty, valid, foreign or too short, two checkpoints in one batch; every DeleteRange shape) through verifier.LogStore over a WAL and directly on a twin WAL, results and stored entries compared after every step, drop/skip accounting checked at the end; plus all schedules up to the preemption bound of a writer storing N checkpoints || runVerifier || a ReportFn blocked on a gate that opens at a scheduler-chosen point or never",
		Assume: []string{"non-nil ReportFn; WAL on the simulated disk as the underlying store for the twin runs, raft.InmemStore for the schedule exploration"},
		Technique: "bounded-exhaustive operation sequences against a twin store plus preemption-bounded exhaustive schedule exploration"})
	reg(&spec{ID: "C19", Overlay: "full", Shards: [2]int{16, 16}, BudgetS: [2]int{45, 600}, Level: "model_checking",
		Rule: "full product: source logs of every length up to the bound x every vector of entry sizes x first index x batchBytes x (source, destination) store pairing x cancellation at the k-th GetLog for every k, through the real CopyLogs; CopyStable with every subset of the standard keys set x extra keys x store pairing; destination compared field by field with the source; a case is non-trivial when the source is non-empty",
		Assume: []string{"stores: the WAL on the simulated disk, raft.InmemStore, raft-boltdb/v2 on a scratch directory", "CopyStable from stores that report missing keys as errors is only driven with all keys set"},
		Technique: "bounded-exhaustive enumeration of the input/configuration product on the real code against the source as reference"})
	reg(&spec{ID: "C12", Overlay: "full", Shards: [2]int{16, 16}, BudgetS: [2]int{45, 600}, Level: "model_checking",
		Rule: "full product of boundary menus (Index, Term in {0, 2^7k-1, 2^7k, MaxUint64}; Type; AppendedAt shapes) and of Data x Extensions shapes (nil, empty, sizes around 2^7, 2^14, 2^16) x AppendedAt through Encode/Decode (equality, documented length, no aliasing of the input buffer); byte-shape pairs through StoreLogs/GetLog across the 64 KiB buffer boundary before and after reopen; retained GetLog results vs later reads for every ordered pair of a small index set (deterministic pool); codec-ID matrix (reserved, custom, foreign)",
		Assume: []string{"sync.Pool replaced by a deterministic LIFO pool so that buffer reuse is repeatable"},
		Technique: "bounded-exhaustive enumeration of boundary-value products on the real codec and WAL"})
	reg(&spec{ID: "C15", Overlay: "full", Shards: [2]int{16, 16}, BudgetS: [2]int{60, 600}, Level: "model_checking",
		Rule: "every payload size in the neighbourhoods of 0, the 64 KiB read buffer, the segment size and 64 MiB x segment size x position in a batch; StoreLogs nil => every entry of the batch reads back identical before and after a reopen and the next append works; StoreLogs error => log unchanged",
		Assume: []string{"simulated disk (in-memory); 64 MiB cases run on one shard"},
		Technique: "bounded-exhaustive enumeration of size neighbourhoods on the real code"})
	for _, id := range []string{"C08", "C13"} {
		reg(&spec{ID: id, Overlay: "full", Shards: [2]int{16, 16}, BudgetS: [2]int{60, 900}, Level: "model_checking", Rule: seqRule + " || " + crashRule, Assume: append(append([]string{}, seqAssume...), crashAssume...),
			Technique: "bounded-exhaustive operation sequences against a reference model plus explicit-state model checking of crash images"})
	}
	for _, id := range []string{"C01", "C02", "C03", "C04"} {
		reg(&spec{ID: id, Overlay: "full", Shards: [2]int{16, 16}, BudgetS: [2]int{45, 900}, Level: "model_checking",
			Rule: crashRule, Assume: crashAssume,
			Technique: "explicit-state model checking of crash images (all torn-write subsets at every I/O boundary, nested) on the real code over a simulated disk"})
	}
}

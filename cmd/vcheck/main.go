// Command vcheck is the driver behind every MANIFEST command:
//
//	vcheck <property> [--tier quick|thorough]
//	vcheck replay <artefact.json>
//
// It instruments /repo's current working tree through a build overlay, builds
// the worker, runs it sharded over the available cores, merges the shard
// results, applies the known-findings list, writes evidence/<id>.json and
// exits 0 (held), 1 (VIOLATION lines printed) or 2 (undecided: build or
// internal error, never reported as a violation).
package main

import (
	"crypto/sha256"
	"encoding/hex"
	"encoding/json"
	"flag"
	"fmt"
	"os"
	"os/exec"
	"path/filepath"
	"runtime"
	"sort"
	"strconv"
	"strings"
	"sync"
	"time"

	"verif/rewrite"
)

// Locations; overridable only for isolated evaluation of seeded changes
// (tools/seed_eval_iso.sh). MANIFEST commands always use the defaults.
var (
	verifDir = envOr("VERIF_DIR", "/verif")
	repoDir  = envOr("VERIF_REPO", "/repo")
)

func envOr(k, d string) string {
	if v := os.Getenv(k); v != "" {
		return v
	}
	return d
}

type spec struct {
	ID        string
	Overlay   string // full | fsonly | none
	Race      bool   // additionally build a -race binary (free-running pass)
	Plain     bool   // additionally build a worker without any overlay (real os under fs; traced child)
	Shards    [2]int // quick, thorough
	BudgetS   [2]int // per-shard exploration budget in seconds: quick, thorough
	Level     string
	Rule      string
	Assume    []string
	Technique string
}

var specs = map[string]*spec{}

func reg(s *spec) { specs[s.ID] = s }

func env() []string {
	e := os.Environ()
	e = append(e, "GOFLAGS=-mod=mod", "GOPROXY=off", "GOSUMDB=off", "GOTOOLCHAIN=local",
		"GOCACHE="+envOr("VERIF_GOCACHE", filepath.Join(verifDir, ".cache", "go-build")), "CGO_ENABLED=0")
	return e
}

func fatal(code int, f string, a ...interface{}) {
	fmt.Fprintf(os.Stderr, "vcheck: "+f+"\n", a...)
	exit(code)
}

// build instruments and builds the worker; the binary name is keyed by the
// hash of every input so concurrent checks never race on a half-written file.
func build(overlay string, race bool) (string, *rewrite.Result) {
	work := filepath.Join(verifDir, ".work")
	os.MkdirAll(work, 0o755)
	tag := overlay
	if race {
		tag += "-race"
	}
	ovDir := filepath.Join(work, "overlay-"+tag+"-"+strconv.Itoa(os.Getpid()))
	var rr *rewrite.Result
	args := []string{"build", "-tags", "verif"}
	if overlay != "none" {
		var err error
		rr, err = rewrite.Build(rewrite.Options{Repo: repoDir, OutDir: ovDir, Mode: overlay, Tags: []string{"verif"}})
		if err != nil {
			fatal(2, "instrumenting /repo failed (undecided, not a violation): %v", err)
		}
		args = append(args, "-overlay", rr.OverlayFile)
	}
	if race {
		args = append(args, "-race")
	}
	bin := filepath.Join(work, fmt.Sprintf("worker-%s-%d", tag, os.Getpid()))
	cleanups = append(cleanups, func() { os.Remove(bin); os.RemoveAll(ovDir) })
	args = append(args, "-o", bin, "./harness/worker")
	cmd := exec.Command("go", args...)
	cmd.Dir = verifDir
	e := env()
	if race {
		// the race detector needs cgo-free support on linux/amd64: available
		for i, kv := range e {
			if kv == "CGO_ENABLED=0" {
				e[i] = "CGO_ENABLED=1"
			}
		}
	}
	cmd.Env = e
	out, err := cmd.CombinedOutput()
	if err != nil {
		fatal(2, "building the instrumented worker failed (undecided, not a violation):\n%s", out)
	}
	return bin, rr
}

type finding struct {
	Prop   string                 `json:"property"`
	Msg    string                 `json:"msg"`
	Engine string                 `json:"engine"`
	Sig    string                 `json:"sig,omitempty"`
	Raw    map[string]interface{} `json:"-"`
}

// diedInRepo inspects the output of a worker that exited abnormally. If it shows a Go panic or runtime fault
// and, walking the failing goroutine's frames from the innermost outward, a frame of the repository under test
// comes before any frame of the harness (the failure is in, or beneath, the code under test), it returns what
// happened and that frame.
func diedInRepo(out string) (what, frame string) {
	at := -1
	for _, m := range []string{"panic: ", "fatal error: ", "unexpected fault address"} {
		if i := strings.Index(out, m); i >= 0 && (at < 0 || i < at) {
			at = i
		}
	}
	if at < 0 {
		return "", ""
	}
	rest := out[at:]
	first := rest
	if i := strings.IndexByte(first, '\n'); i >= 0 {
		first = first[:i]
	}
	// the failing goroutine is the first one listed after the message
	g := strings.Index(rest, "\ngoroutine ")
	if g < 0 {
		return "", ""
	}
	lines := strings.Split(rest[g+1:], "\n")
	for _, l := range lines[1:] {
		if l == "" {
			break
		}
		if strings.HasPrefix(l, "\t") || strings.HasPrefix(l, " ") {
			continue
		}
		fn := l
		if i := strings.LastIndexByte(fn, '('); i > 0 {
			fn = fn[:i]
		}
		switch {
		case strings.HasPrefix(fn, "created by"):
			return "", ""
		case strings.HasPrefix(fn, "github.com/hashicorp/raft-wal"):
			// reached from the innermost frame outward before any harness frame: the failure is in,
			// or in something called by, the code under test
			return first, fn
		case strings.HasPrefix(fn, "main.") || strings.HasPrefix(fn, "verif/"):
			return "", ""
		}
	}
	return "", ""
}

// headTail keeps the beginning (where Go prints what went wrong) and the end of a long output.
func headTail(s string, h, t int) string {
	if len(s) <= h+t {
		return s
	}
	return s[:h] + "\n...\n" + s[len(s)-t:]
}

type shardResult struct {
	Prop       string                      `json:"prop"`
	Shard      int                         `json:"shard"`
	Done       bool                        `json:"done"`
	WallS      float64                     `json:"wall_s"`
	Findings   []json.RawMessage           `json:"findings"`
	Counts     map[string]int64            `json:"counts"`
	Maxes      map[string]int64            `json:"maxes"`
	Mins       map[string]int64            `json:"mins"`
	Sets       map[string][]string         `json:"sets"`
	Hists      map[string]map[string]int64 `json:"hists"`
	Samples    []interface{}               `json:"samples"`
	Exhaustive bool                        `json:"exhaustive"`
	Notes      []string                    `json:"notes"`
	Bounds     map[string]interface{}      `json:"bounds"`
}

type known struct {
	Kind     string `json:"kind"` // fixed | known
	Property string `json:"property"`
	Commit   string `json:"commit,omitempty"`
	What     string `json:"what"`
	Sig      string `json:"signature,omitempty"` // for kind=known: substring that must occur in the finding signature
}

func loadKnown() []known {
	var ks struct {
		Entries []known `json:"entries"`
	}
	b, err := os.ReadFile(filepath.Join(verifDir, "known_findings.json"))
	if err != nil {
		return nil
	}
	if err := json.Unmarshal(b, &ks); err != nil {
		fatal(2, "known_findings.json: %v", err)
	}
	return ks.Entries
}

var cleanups []func()

func exit(code int) {
	for _, f := range cleanups {
		f()
	}
	os.Exit(code)
}

func main() {
	if len(os.Args) < 2 {
		fatal(2, "usage: vcheck <property> [--tier quick|thorough] | vcheck replay <file>")
	}
	if os.Args[1] == "replay" {
		if len(os.Args) < 3 {
			fatal(2, "usage: vcheck replay <file>")
		}
		exit(replay(os.Args[2]))
	}
	id := os.Args[1]
	fs := flag.NewFlagSet("vcheck", flag.ExitOnError)
	tier := fs.String("tier", os.Getenv("VERIF_TIER"), "quick|thorough")
	budget := fs.Int("budget", 0, "override per-shard budget (seconds)")
	shardsF := fs.Int("shards", 0, "override shard count")
	keep := fs.Bool("keep", false, "keep shard outputs")
	fs.Parse(os.Args[2:])
	if *tier == "" {
		*tier = "quick"
	}
	sp := specs[id]
	if sp == nil {
		fatal(2, "unknown property %s", id)
	}
	seed := int64(0)
	if s := os.Getenv("VERIF_SEED"); s != "" {
		seed, _ = strconv.ParseInt(s, 10, 64)
	}
	ti := 0
	if *tier == "thorough" {
		ti = 1
	}
	t0 := time.Now()
	bin, rr := build(sp.Overlay, false)
	raceBin := ""
	if sp.Race {
		raceBin, _ = build("fsonly", true)
	}
	plainBin := ""
	if sp.Plain {
		plainBin, _ = build("none", false)
	}
	buildS := time.Since(t0).Seconds()
	n := sp.Shards[ti]
	if *shardsF > 0 {
		n = *shardsF
	}
	if n > runtime.NumCPU() {
		n = runtime.NumCPU()
	}
	if n < 1 {
		n = 1
	}
	bs := sp.BudgetS[ti]
	if *budget > 0 {
		bs = *budget
	}
	outDir := filepath.Join(verifDir, ".work", fmt.Sprintf("run-%s-%d", id, os.Getpid()))
	os.MkdirAll(outDir, 0o755)
	if !*keep {
		cleanups = append(cleanups, func() { os.RemoveAll(outDir) })
	}
	results := make([]*shardResult, n)
	errs := make([]string, n)
	var wg sync.WaitGroup
	for i := 0; i < n; i++ {
		wg.Add(1)
		go func(i int) {
			defer wg.Done()
			out := filepath.Join(outDir, fmt.Sprintf("shard%d.json", i))
			args := []string{"-prop", id, "-tier", *tier, "-shard", strconv.Itoa(i), "-nshards", strconv.Itoa(n),
				"-budget", fmt.Sprintf("%ds", bs), "-out", out, "-seed", strconv.FormatInt(seed, 10)}
			if raceBin != "" {
				args = append(args, "-racebin", raceBin)
			}
			if plainBin != "" {
				args = append(args, "-plainbin", plainBin)
			}
			cmd := exec.Command(bin, args...)
			cmd.Dir = verifDir
			cmd.Env = append(env(), "GOMAXPROCS=1", "GOGC=200")
			// hard wall limit: budget + generous slack; a shard that does not report is undecided
			timer := time.AfterFunc(time.Duration(bs*3+120)*time.Second, func() { cmd.Process.Kill() })
			o, err := cmd.CombinedOutput()
			timer.Stop()
			if err != nil {
				if what, frame := diedInRepo(string(o)); what != "" {
					// the worker process was brought down by a panic or runtime fault whose innermost
					// non-runtime frame is code under test: that is a finding, not a harness failure
					f, _ := json.Marshal(map[string]interface{}{"property": id, "engine": "died", "sig": id + "|died|" + frame,
						"msg": fmt.Sprintf("the worker process died inside the code under test (%s in %s); shard %d of %d, %v\n%s", what, frame, i, n, err, tail(string(o), 1500))})
					results[i] = &shardResult{Shard: i, Done: true, Exhaustive: false, Findings: []json.RawMessage{f},
						Notes: []string{fmt.Sprintf("shard %d died inside the code under test; what it had explored until then is not counted", i)}}
					return
				}
				errs[i] = fmt.Sprintf("shard %d: %v\n%s", i, err, headTail(string(o), 1500, 2500))
				return
			}
			b, err := os.ReadFile(out)
			if err != nil {
				errs[i] = fmt.Sprintf("shard %d: no result file: %v\n%s", i, err, tail(string(o), 2000))
				return
			}
			var r shardResult
			if err := json.Unmarshal(b, &r); err != nil || !r.Done {
				errs[i] = fmt.Sprintf("shard %d: bad result: %v", i, err)
				return
			}
			results[i] = &r
		}(i)
	}
	wg.Wait()
	// a shard that died or was stopped leaves the run undecided - unless another shard has already decided it:
	// a finding reported by a shard that completed stands on its own (a change that makes the code under test
	// loop or allocate without end typically shows as findings on some shards and stopped workers on others)
	haveFinding := false
	for _, r := range results {
		if r != nil && len(r.Findings) > 0 {
			haveFinding = true
		}
	}
	var lostShards []string
	for i, e := range errs {
		if e != "" {
			if !haveFinding {
				fatal(2, "worker failed (undecided, not a violation):\n%s", e)
			}
			lostShards = append(lostShards, fmt.Sprintf("shard %d did not report (%s); what it explored is not counted", i, firstLineOf(e)))
		}
	}
	if len(lostShards) > 0 {
		var kept []*shardResult
		for _, r := range results {
			if r != nil {
				kept = append(kept, r)
			}
		}
		kept[0].Notes = append(kept[0].Notes, lostShards...)
		kept[0].Exhaustive = false
		results = kept
	}
	// merge
	counts := map[string]int64{}
	maxes := map[string]int64{}
	mins := map[string]int64{}
	sets := map[string]map[string]bool{}
	hists := map[string]map[string]int64{}
	var samples []interface{}
	var notes []string
	exhaustive := true
	var bounds map[string]interface{}
	var allFindings []json.RawMessage
	for _, r := range results {
		for k, v := range r.Counts {
			counts[k] += v
		}
		for k, v := range r.Maxes {
			if v > maxes[k] {
				maxes[k] = v
			}
		}
		for k, v := range r.Mins {
			if old, ok := mins[k]; !ok || v < old {
				mins[k] = v
			}
		}
		for k, vs := range r.Sets {
			if sets[k] == nil {
				sets[k] = map[string]bool{}
			}
			for _, v := range vs {
				sets[k][v] = true
			}
		}
		for k, h := range r.Hists {
			if hists[k] == nil {
				hists[k] = map[string]int64{}
			}
			for kk, v := range h {
				hists[k][kk] += v
			}
		}
		if len(samples) < 6 {
			for _, s := range r.Samples {
				if len(samples) < 6 {
					samples = append(samples, s)
				}
			}
		}
		notes = append(notes, r.Notes...)
		if !r.Exhaustive {
			exhaustive = false
		}
		if bounds == nil {
			bounds = r.Bounds
		}
		allFindings = append(allFindings, r.Findings...)
	}
	notes = uniq(notes)
	// findings: de-duplicate by signature, split own / other property, apply known list
	kn := loadKnown()
	type fnd struct {
		Prop, Msg, Sig string
		raw            json.RawMessage
	}
	seen := map[string]bool{}
	var own, other []fnd
	for _, raw := range allFindings {
		var f struct {
			Prop string `json:"property"`
			Msg  string `json:"msg"`
			Sig  string `json:"sig"`
		}
		json.Unmarshal(raw, &f)
		key := f.Prop + "|" + f.Sig
		if f.Sig == "" {
			key = f.Prop + "|" + f.Msg
		}
		if seen[key] {
			continue
		}
		seen[key] = true
		x := fnd{f.Prop, f.Msg, f.Sig, raw}
		if f.Prop == id || f.Prop == "PANIC" || f.Prop == "DEADLOCK" || f.Prop == "HANG" || f.Prop == "INTERNAL" {
			own = append(own, x)
		} else {
			other = append(other, x)
		}
	}
	sort.SliceStable(own, func(i, j int) bool { return len(own[i].Sig) < len(own[j].Sig) })
	os.MkdirAll(filepath.Join(verifDir, "replays"), 0o755)
	violations := 0
	knownHits := map[int]bool{}
	printed := 0
	for _, f := range own {
		if f.Prop == "INTERNAL" {
			fatal(2, "internal error in the harness (undecided, not a violation): %s", f.Msg)
		}
		matched := -1
		for i, k := range kn {
			if k.Kind == "known" && k.Property == id && k.Sig != "" && strings.Contains(f.Prop+"|"+f.Sig+"|"+f.Msg, k.Sig) {
				matched = i
				break
			}
		}
		if matched >= 0 {
			if !knownHits[matched] {
				knownHits[matched] = true
				fmt.Printf("KNOWN-FINDING: property=%s %s\n", id, kn[matched].What)
			}
			continue
		}
		violations++
		h := sha256.Sum256([]byte(f.Prop + f.Sig + f.Msg))
		path := filepath.Join(verifDir, "replays", fmt.Sprintf("%s-%s.json", id, hex.EncodeToString(h[:6])))
		if violations <= 24 {
			os.WriteFile(path, f.raw, 0o644) // the shortest histories; more of the same class add nothing
		}
		if printed < 8 {
			printed++
			fmt.Printf("VIOLATION property=%s replay=%s\n", id, path)
			fmt.Printf("  %s\n", oneLine(f.Msg, 400))
		}
	}
	if violations > printed {
		fmt.Printf("  (%d more violations of %s; the first 24 are in %s)\n", violations-printed, id, filepath.Join(verifDir, "replays"))
	}
	for i, f := range other {
		if i >= 5 {
			fmt.Printf("NOTE: %d further findings attributed to other properties\n", len(other)-i)
			break
		}
		fmt.Printf("NOTE: finding attributed to %s (reported by its own check): %s\n", f.Prop, oneLine(f.Msg, 200))
	}
	// evidence
	wall := time.Since(t0).Seconds()
	cov := map[string]interface{}{}
	for k, v := range counts {
		cov[k] = v
	}
	for k, v := range maxes {
		cov[k] = v
	}
	for k, v := range mins {
		cov[k] = v
	}
	for k, s := range sets {
		cov["distinct_"+k] = len(s)
	}
	for k, h := range hists {
		cov[k] = h
	}
	pick := func(keys ...string) int64 {
		for _, k := range keys {
			if s, ok := sets[k]; ok {
				return int64(len(s))
			}
			if v, ok := counts[k]; ok {
				return v
			}
		}
		return 0
	}
	cov["states"] = pick("states")
	cov["transitions"] = pick("transitions")
	cov["traces_validated_against_impl"] = pick("traces_validated")
	cov["evaluations"] = pick("evaluations")
	cov["distinct_nontrivial"] = pick("nontrivial", "distinct_nontrivial")
	cov["rule"] = sp.Rule
	if len(samples) == 0 {
		samples = append(samples, "no sample recorded")
	}
	cov["samples"] = samples
	cov["exhaustive"] = exhaustive
	cov["bounds"] = bounds
	cov["shards"] = n
	cov["budget_s_per_shard"] = bs
	cov["build_s"] = buildS
	if rr != nil {
		cov["instrumented_files"] = rr.Files
		cov["instrumented_sites"] = rr.Sites
	}
	if len(notes) > 0 {
		cov["notes"] = notes
	}
	cov["other_property_findings"] = len(other)
	ev := map[string]interface{}{
		"property_id": id, "tier": *tier, "seed": seed, "level": sp.Level, "coverage": cov,
		"assumptions": sp.Assume, "wall_s": wall, "violations": violations, "known_findings_matched": len(knownHits),
		"technique": sp.Technique,
	}
	b, _ := json.MarshalIndent(ev, "", " ")
	os.MkdirAll(filepath.Join(verifDir, "evidence"), 0o755)
	if err := os.WriteFile(filepath.Join(verifDir, "evidence", id+".json"), b, 0o644); err != nil {
		fatal(2, "writing evidence: %v", err)
	}
	fmt.Printf("%s tier=%s states=%v transitions=%v evaluations=%v exhaustive=%v violations=%d known=%d wall=%.1fs\n",
		id, *tier, cov["states"], cov["transitions"], cov["evaluations"], exhaustive, violations, len(knownHits), wall)
	if violations > 0 {
		exit(1)
	}
	exit(0)
}

func replay(path string) int {
	b, err := os.ReadFile(path)
	if err != nil {
		fatal(2, "%v", err)
	}
	var f struct {
		Prop string `json:"property"`
	}
	json.Unmarshal(b, &f)
	ov := "full"
	if sp := specs[f.Prop]; sp != nil {
		ov = sp.Overlay
	}
	bin, _ := build(ov, false)
	cmd := exec.Command(bin, "-replay", path)
	cmd.Dir = verifDir
	cmd.Env = append(env(), "GOMAXPROCS=1")
	cmd.Stdout, cmd.Stderr = os.Stdout, os.Stderr
	if err := cmd.Run(); err != nil {
		if ee, ok := err.(*exec.ExitError); ok {
			return ee.ExitCode()
		}
		return 2
	}
	return 0
}

func tail(s string, n int) string {
	if len(s) > n {
		return "..." + s[len(s)-n:]
	}
	return s
}

func oneLine(s string, n int) string {
	s = strings.ReplaceAll(s, "\n", " | ")
	if len(s) > n {
		s = s[:n] + "..."
	}
	return s
}

func uniq(ss []string) []string {
	m := map[string]bool{}
	var out []string
	for _, s := range ss {
		if !m[s] {
			m[s] = true
			out = append(out, s)
		}
	}
	return out
}

func firstLineOf(s string) string {
	if i := strings.IndexByte(s, '\n'); i >= 0 {
		return s[:i]
	}
	return s
}

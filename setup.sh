#!/bin/sh
# Builds the driver and warms the Go build cache; offline, from files on disk only.
set -e
cd /verif
export GOFLAGS=-mod=mod GOPROXY=off GOSUMDB=off GOTOOLCHAIN=local GOCACHE=/verif/.cache/go-build CGO_ENABLED=0
mkdir -p bin .work .cache evidence replays
go build -o bin/vcheck ./cmd/vcheck
go build -o bin/vrewrite ./cmd/vrewrite
# warm the cache with one instrumented build of the worker (and one plain build)
./bin/vrewrite -out /verif/.work/overlay-warm -mode full >/dev/null
go build -tags verif -overlay /verif/.work/overlay-warm/overlay.json -o /verif/.work/worker-warm ./harness/worker
go build -tags verif -o /verif/.work/worker-warm ./harness/worker
rm -rf /verif/.work/worker-warm /verif/.work/overlay-warm
echo setup ok

// Package simdisk is the simulated disk that sits under the repository's real
// fs package (through the verif/shim/vos overlay) and under simMeta. It keeps a
// volatile view for reads plus an op log from which every crash image (every
// subset of un-fsynced 8-byte chunks, pending directory operations and pending
// length changes) can be materialised afterwards.
package simdisk

import (
	"crypto/sha256"
	"encoding/hex"
	"errors"
	"fmt"
	"io"
	"io/fs"
	"regexp"
	"sort"
	"strings"
	"sync"
)

type OpKind uint8

const (
	OpCreate     OpKind = iota + 1 // Name, Ino
	OpPrealloc                     // Ino, Size  (length change, zero fill)
	OpWrite                        // Ino, Off, Data
	OpTruncate                     // Ino, Size
	OpFsync                        // Ino
	OpFsyncDir                     //
	OpUnlink                       // Name, Ino
	OpRename                       // Name, Name2
	OpMetaCommit                   // Data
	OpStableSet                    // Key, Data (nil = delete)
	OpCall                         // Note: marker, API call i starts
	OpAck                          // Note: marker, API call i returned
	OpNote                         // free marker
)

var kindNames = map[OpKind]string{OpCreate: "create", OpPrealloc: "prealloc", OpWrite: "pwrite", OpTruncate: "truncate",
	OpFsync: "fsync", OpFsyncDir: "fsyncdir", OpUnlink: "unlink", OpRename: "rename", OpMetaCommit: "metacommit",
	OpStableSet: "stableset", OpCall: "CALL", OpAck: "ACK", OpNote: "NOTE"}

func (k OpKind) String() string { return kindNames[k] }

// Mutating reports whether the op changes durable or pending disk state.
func (k OpKind) Mutating() bool { return k >= OpCreate && k <= OpStableSet }

type Op struct {
	Kind  OpKind
	Name  string
	Name2 string
	Ino   int
	Off   int64
	Size  int64
	Data  []byte
	Key   string
	Note  string
	Call  int   // index of the API call for Call/Ack markers
	Stamp int64 // logical time (Clock) at which the op was logged
}

// Clock, if set, stamps every logged op.
var Clock func() int64

func (o Op) String() string {
	switch o.Kind {
	case OpCreate, OpUnlink:
		return fmt.Sprintf("%s(%s#%d)", o.Kind, o.Name, o.Ino)
	case OpPrealloc, OpTruncate:
		return fmt.Sprintf("%s(#%d,%d)", o.Kind, o.Ino, o.Size)
	case OpWrite:
		return fmt.Sprintf("pwrite(#%d,off=%d,len=%d)", o.Ino, o.Off, len(o.Data))
	case OpFsync:
		return fmt.Sprintf("fsync(#%d)", o.Ino)
	case OpRename:
		return fmt.Sprintf("rename(%s,%s)", o.Name, o.Name2)
	case OpMetaCommit:
		return fmt.Sprintf("metacommit(%dB)", len(o.Data))
	case OpStableSet:
		return fmt.Sprintf("stableset(%q,%dB)", o.Key, len(o.Data))
	case OpCall, OpAck, OpNote:
		return fmt.Sprintf("%s[%d](%s)", o.Kind, o.Call, o.Note)
	}
	return o.Kind.String()
}

// State is a durable disk image: nothing pending.
type State struct {
	Files  map[string][]byte
	Meta   []byte // JSON of the persisted metadata record, nil if never committed
	Stable map[string][]byte
	hash   string
}

func NewState() *State { return &State{Files: map[string][]byte{}, Stable: map[string][]byte{}} }

func (s *State) Names() []string {
	ns := make([]string, 0, len(s.Files))
	for n := range s.Files {
		ns = append(ns, n)
	}
	sort.Strings(ns)
	return ns
}

func (s *State) Clone() *State {
	c := NewState()
	for n, b := range s.Files {
		c.Files[n] = b // byte slices are treated as immutable
	}
	c.Meta = s.Meta
	for k, v := range s.Stable {
		c.Stable[k] = v
	}
	return c
}

// Hash is a content hash of the whole image.
func (s *State) Hash() string {
	if s.hash != "" {
		return s.hash
	}
	h := sha256.New()
	var lb [8]byte
	put := func(b []byte) {
		n := len(b)
		for i := 0; i < 8; i++ {
			lb[i] = byte(n >> (8 * i))
		}
		h.Write(lb[:])
		h.Write(b)
	}
	for _, n := range s.Names() {
		put([]byte(n))
		put(s.Files[n])
	}
	put([]byte("\x00meta"))
	put(canonMeta(s.Meta))
	ks := make([]string, 0, len(s.Stable))
	for k := range s.Stable {
		ks = append(ks, k)
	}
	sort.Strings(ks)
	for _, k := range ks {
		put([]byte(k))
		put(s.Stable[k])
	}
	s.hash = hex.EncodeToString(h.Sum(nil)[:16])
	return s.hash
}

// ---------------------------------------------------------------------------

type inode struct {
	id    int
	data  []byte
	nlink int
}

// FaultKind selects what a failing mutating op does before returning an error.
type FaultKind int

const (
	FaultNone     FaultKind = iota
	FaultClean              // no effect, error returned
	FaultAfter              // full effect applied, error returned
	FaultShort              // writes: a prefix (half, 8-byte aligned) applied, error returned; others: like clean
	FaultShortEOF           // writes: like FaultShort but the error is a bare io.EOF (what io.WriterAt allows for a file that cannot grow); others: like clean
)

var ErrInjected = errors.New("simdisk: injected I/O error")

// InjectedErr, when not nil, is the error value injected faults carry instead of ErrInjected (an errno such as
// syscall.EINTR that code may single out). Set by an engine around one run; engines run one at a time.
var InjectedErr error

// Disk is the runtime object: volatile view + op log.
type Disk struct {
	mu      sync.Mutex
	Mount   string
	names   map[string]*inode
	inodes  []*inode
	meta    []byte
	stable  map[string][]byte
	Log     []Op
	Base    *State
	BaseIno map[string]int

	OpenHandles int
	Created     []string // every name passed to a successful or failed create, in order
	CreateExist []string // creates that failed with "exists"

	// fault injection: the FaultAt-th faultable op (0-based) fails with FaultKind;
	// if FaultPersistent every later faultable op of the same OpKind fails too.
	FaultAt         int
	FaultKind       FaultKind
	FaultPersistent bool
	FaultAll        bool // once the fault has fired, every later faultable op of any kind fails too (the device is gone) until the harness clears FaultAt
	FaultHit        *Op
	// EagerEOF: a read that ends exactly at the end of the file returns io.EOF together with the full count
	// (the other behaviour io.ReaderAt allows; os.File returns nil there)
	EagerEOF       bool
	faultKindHit   OpKind
	FaultOps       int  // faultable ops seen so far
	NoLog          bool // do not record the op log (engines that only need the volatile view)
	FaultReads     bool // also count list/load as faultable (OpNote kinds "list","load")
	FaultFileReads bool // also count ReadAt on files as faultable
	FaultPaused    bool // the harness itself is reading (observation): nothing is injected or counted
}

// NewDisk mounts a durable state.
func NewDisk(mount string, st *State) *Disk {
	d := &Disk{Mount: mount, names: map[string]*inode{}, stable: map[string][]byte{}, Base: st, BaseIno: map[string]int{}, FaultAt: -1}
	for _, n := range st.Names() {
		ino := &inode{id: len(d.inodes), data: append([]byte(nil), st.Files[n]...), nlink: 1}
		d.inodes = append(d.inodes, ino)
		d.names[n] = ino
		d.BaseIno[n] = ino.id
	}
	d.meta = st.Meta
	for k, v := range st.Stable {
		d.stable[k] = v
	}
	return d
}

func (d *Disk) logOp(o Op) {
	if d.NoLog {
		return
	}
	if Clock != nil {
		o.Stamp = Clock()
	}
	d.Log = append(d.Log, o)
}

// Mark appends a marker op.
func (d *Disk) Mark(kind OpKind, call int, note string) {
	d.mu.Lock()
	d.logOp(Op{Kind: kind, Call: call, Note: note})
	d.mu.Unlock()
}

// fault decides whether the next faultable op fails. Caller holds mu.
func (d *Disk) fault(k OpKind) FaultKind {
	idx := d.FaultOps
	d.FaultOps++
	if d.FaultAt < 0 {
		return FaultNone
	}
	if idx == d.FaultAt {
		d.faultKindHit = k
		d.FaultHit = &Op{Kind: k}
		return d.FaultKind
	}
	if d.FaultPersistent && idx > d.FaultAt && k == d.faultKindHit {
		return d.FaultKind
	}
	if d.FaultAll && idx > d.FaultAt {
		return d.FaultKind
	}
	return FaultNone
}

func pathErr(op, name string, err error) error {
	if err == ErrInjected && InjectedErr != nil {
		err = InjectedErr
	}
	return &fs.PathError{Op: op, Path: name, Err: err}
}

type Handle struct {
	d      *Disk
	ino    *inode
	Name   string
	dir    bool
	closed bool
	ro     bool
}

// OpenFile opens or creates name. Flags are interpreted by the caller (vos).
func (d *Disk) OpenFile(name string, create, excl, ro, trunc bool) (*Handle, error) {
	d.mu.Lock()
	defer d.mu.Unlock()
	ino, ok := d.names[name]
	if create {
		d.Created = append(d.Created, name)
	}
	if ok && create && excl {
		d.CreateExist = append(d.CreateExist, name)
		return nil, pathErr("open", name, fs.ErrExist)
	}
	if !ok {
		if !create {
			return nil, pathErr("open", name, fs.ErrNotExist)
		}
		switch d.fault(OpCreate) {
		case FaultClean, FaultShort, FaultShortEOF:
			return nil, pathErr("open", name, ErrInjected)
		case FaultAfter:
			ino = &inode{id: len(d.inodes), nlink: 1}
			d.inodes = append(d.inodes, ino)
			d.names[name] = ino
			d.logOp(Op{Kind: OpCreate, Name: name, Ino: ino.id})
			return nil, pathErr("open", name, ErrInjected)
		}
		ino = &inode{id: len(d.inodes), nlink: 1}
		d.inodes = append(d.inodes, ino)
		d.names[name] = ino
		d.logOp(Op{Kind: OpCreate, Name: name, Ino: ino.id})
	} else if trunc && len(ino.data) > 0 {
		ino.data = nil
		d.logOp(Op{Kind: OpTruncate, Ino: ino.id, Size: 0})
	}
	d.OpenHandles++
	return &Handle{d: d, ino: ino, Name: name, ro: ro}, nil
}

// OpenDir returns a handle on the directory itself (for fsync).
func (d *Disk) OpenDir() *Handle {
	d.mu.Lock()
	defer d.mu.Unlock()
	d.OpenHandles++
	return &Handle{d: d, dir: true, Name: "."}
}

func (h *Handle) IsDir() bool { return h.dir }

func (h *Handle) Size() int64 {
	h.d.mu.Lock()
	defer h.d.mu.Unlock()
	if h.dir {
		return 0
	}
	return int64(len(h.ino.data))
}

func (h *Handle) ReadAt(p []byte, off int64) (int, error) {
	h.d.mu.Lock()
	defer h.d.mu.Unlock()
	if h.closed {
		return 0, pathErr("read", h.Name, fs.ErrClosed)
	}
	if h.dir {
		return 0, pathErr("read", h.Name, errors.New("is a directory"))
	}
	if off < 0 {
		return 0, pathErr("readat", h.Name, errors.New("negative offset"))
	}
	if h.d.FaultFileReads && !h.d.FaultPaused {
		// a failing read transfers nothing
		if h.d.fault(OpNote) != FaultNone {
			return 0, pathErr("read", h.Name, ErrInjected)
		}
	}
	if off >= int64(len(h.ino.data)) {
		if len(p) == 0 {
			return 0, nil
		}
		return 0, io.EOF
	}
	n := copy(p, h.ino.data[off:])
	if n < len(p) {
		return n, io.EOF
	}
	if h.d.EagerEOF && len(p) > 0 && off+int64(n) == int64(len(h.ino.data)) {
		// io.ReaderAt: "If the n = len(p) bytes returned by ReadAt are at the end of the input source, ReadAt
		// may return either err == EOF or err == nil"
		return n, io.EOF
	}
	return n, nil
}

func (h *Handle) WriteAt(p []byte, off int64) (int, error) {
	d := h.d
	d.mu.Lock()
	defer d.mu.Unlock()
	if h.closed {
		return 0, pathErr("write", h.Name, fs.ErrClosed)
	}
	if h.dir || h.ro {
		return 0, pathErr("write", h.Name, errors.New("bad file descriptor"))
	}
	if off < 0 {
		return 0, pathErr("writeat", h.Name, errors.New("negative offset"))
	}
	apply := func(q []byte) {
		end := off + int64(len(q))
		if end > int64(len(h.ino.data)) {
			nd := make([]byte, end)
			copy(nd, h.ino.data)
			h.ino.data = nd
		}
		copy(h.ino.data[off:], q)
		if !d.NoLog {
			d.logOp(Op{Kind: OpWrite, Ino: h.ino.id, Off: off, Data: append([]byte(nil), q...)})
		}
	}
	switch d.fault(OpWrite) {
	case FaultClean:
		return 0, pathErr("write", h.Name, ErrInjected)
	case FaultAfter:
		apply(p)
		return len(p), pathErr("write", h.Name, ErrInjected)
	case FaultShort:
		n := (len(p) / 2) &^ 7
		if n > 0 {
			apply(p[:n])
		}
		return n, pathErr("write", h.Name, ErrInjected)
	case FaultShortEOF:
		n := (len(p) / 2) &^ 7
		if n > 0 {
			apply(p[:n])
		}
		return n, io.EOF
	}
	apply(p)
	return len(p), nil
}

func (h *Handle) Truncate(size int64, prealloc bool) error {
	d := h.d
	d.mu.Lock()
	defer d.mu.Unlock()
	if h.closed {
		return pathErr("truncate", h.Name, fs.ErrClosed)
	}
	kind := OpTruncate
	if prealloc {
		kind = OpPrealloc
		if size <= int64(len(h.ino.data)) {
			return nil
		}
	}
	do := func() {
		nd := make([]byte, size)
		copy(nd, h.ino.data)
		h.ino.data = nd
		d.logOp(Op{Kind: kind, Ino: h.ino.id, Size: size})
	}
	switch d.fault(kind) {
	case FaultClean, FaultShort, FaultShortEOF:
		return pathErr("truncate", h.Name, ErrInjected)
	case FaultAfter:
		do()
		return pathErr("truncate", h.Name, ErrInjected)
	}
	do()
	return nil
}

func (h *Handle) Sync() error {
	d := h.d
	d.mu.Lock()
	defer d.mu.Unlock()
	if h.closed {
		return pathErr("sync", h.Name, fs.ErrClosed)
	}
	op := Op{Kind: OpFsync, Ino: -1}
	if h.dir {
		op = Op{Kind: OpFsyncDir}
	} else {
		op.Ino = h.ino.id
	}
	switch d.fault(op.Kind) {
	case FaultClean, FaultShort, FaultShortEOF:
		return pathErr("sync", h.Name, ErrInjected)
	case FaultAfter:
		d.logOp(op)
		return pathErr("sync", h.Name, ErrInjected)
	}
	d.logOp(op)
	return nil
}

func (h *Handle) Close() error {
	h.d.mu.Lock()
	defer h.d.mu.Unlock()
	if h.closed {
		return pathErr("close", h.Name, fs.ErrClosed)
	}
	h.closed = true
	h.d.OpenHandles--
	return nil
}

func (d *Disk) Remove(name string) error {
	d.mu.Lock()
	defer d.mu.Unlock()
	ino, ok := d.names[name]
	if !ok {
		return pathErr("remove", name, fs.ErrNotExist)
	}
	do := func() {
		delete(d.names, name)
		ino.nlink--
		d.logOp(Op{Kind: OpUnlink, Name: name, Ino: ino.id})
	}
	switch d.fault(OpUnlink) {
	case FaultClean, FaultShort, FaultShortEOF:
		return pathErr("remove", name, ErrInjected)
	case FaultAfter:
		do()
		return pathErr("remove", name, ErrInjected)
	}
	do()
	return nil
}

func (d *Disk) Rename(a, b string) error {
	d.mu.Lock()
	defer d.mu.Unlock()
	ino, ok := d.names[a]
	if !ok {
		return pathErr("rename", a, fs.ErrNotExist)
	}
	switch d.fault(OpRename) {
	case FaultClean, FaultShort, FaultShortEOF:
		return pathErr("rename", a, ErrInjected)
	}
	delete(d.names, a)
	d.names[b] = ino
	d.logOp(Op{Kind: OpRename, Name: a, Name2: b})
	return nil
}

func (d *Disk) Exists(name string) bool {
	d.mu.Lock()
	defer d.mu.Unlock()
	_, ok := d.names[name]
	return ok
}

func (d *Disk) FileSize(name string) (int64, bool) {
	d.mu.Lock()
	defer d.mu.Unlock()
	ino, ok := d.names[name]
	if !ok {
		return 0, false
	}
	return int64(len(ino.data)), true
}

// ListDir returns the volatile directory listing, sorted.
func (d *Disk) ListDir() ([]string, error) {
	d.mu.Lock()
	defer d.mu.Unlock()
	if d.FaultReads {
		if d.fault(OpNote) != FaultNone {
			return nil, pathErr("readdir", d.Mount, ErrInjected)
		}
	}
	ns := make([]string, 0, len(d.names))
	for n := range d.names {
		ns = append(ns, n)
	}
	sort.Strings(ns)
	return ns, nil
}

// ---- metadata store primitives (atomic + durable at their log position) ----

func (d *Disk) MetaLoad() ([]byte, error) {
	d.mu.Lock()
	defer d.mu.Unlock()
	if d.FaultReads {
		if d.fault(OpNote) != FaultNone {
			return nil, ErrInjected
		}
	}
	return d.meta, nil
}

func (d *Disk) MetaCommit(b []byte) error {
	d.mu.Lock()
	defer d.mu.Unlock()
	do := func() {
		d.meta = append([]byte(nil), b...)
		d.logOp(Op{Kind: OpMetaCommit, Data: d.meta})
	}
	switch d.fault(OpMetaCommit) {
	case FaultClean, FaultShort, FaultShortEOF:
		return ErrInjected
	case FaultAfter:
		do()
		return ErrInjected
	}
	do()
	return nil
}

func (d *Disk) StableGet(k string) []byte {
	d.mu.Lock()
	defer d.mu.Unlock()
	v, ok := d.stable[k]
	if !ok {
		return nil
	}
	return append([]byte{}, v...)
}

// StableGetF is StableGet as the code under test reaches it: a faultable step while reads are being faulted
// (the harness's own observations pause faults).
func (d *Disk) StableGetF(k string) ([]byte, error) {
	d.mu.Lock()
	if d.FaultReads && !d.FaultPaused {
		if d.fault(OpNote) != FaultNone {
			d.mu.Unlock()
			return nil, ErrInjected
		}
	}
	d.mu.Unlock()
	return d.StableGet(k), nil
}

func (d *Disk) StableSet(k string, v []byte) error {
	d.mu.Lock()
	defer d.mu.Unlock()
	do := func() {
		if v == nil {
			delete(d.stable, k)
			d.logOp(Op{Kind: OpStableSet, Key: k, Data: nil})
		} else {
			c := append([]byte{}, v...)
			d.stable[k] = c
			d.logOp(Op{Kind: OpStableSet, Key: k, Data: c})
		}
	}
	switch d.fault(OpStableSet) {
	case FaultClean, FaultShort, FaultShortEOF:
		return ErrInjected
	case FaultAfter:
		do()
		return ErrInjected
	}
	do()
	return nil
}

// StableAll returns a copy of the stable map.
func (d *Disk) StableAll() map[string][]byte {
	d.mu.Lock()
	defer d.mu.Unlock()
	m := map[string][]byte{}
	for k, v := range d.stable {
		m[k] = append([]byte{}, v...)
	}
	return m
}

// Volatile returns the state as a running process sees it (what a clean
// shutdown followed by a full sync would leave).
func (d *Disk) Volatile() *State {
	d.mu.Lock()
	defer d.mu.Unlock()
	st := NewState()
	for n, ino := range d.names {
		st.Files[n] = append([]byte(nil), ino.data...)
	}
	st.Meta = d.meta
	for k, v := range d.stable {
		st.Stable[k] = v
	}
	return st
}

// LogLen returns the current length of the op log.
func (d *Disk) LogLen() int {
	d.mu.Lock()
	defer d.mu.Unlock()
	return len(d.Log)
}

// ---- mount table ----

var (
	mountMu sync.Mutex
	mounts  = map[string]*Disk{}
)

const Prefix = "/sim/"

func Register(d *Disk) string {
	mountMu.Lock()
	mounts[d.Mount] = d
	mountMu.Unlock()
	return Prefix + d.Mount
}

func Unregister(d *Disk) {
	mountMu.Lock()
	delete(mounts, d.Mount)
	mountMu.Unlock()
}

// Resolve maps a path to (disk, file name). name=="" means the directory.
func Resolve(path string) (*Disk, string, bool) {
	if len(path) < len(Prefix) || path[:len(Prefix)] != Prefix {
		return nil, "", false
	}
	rest := path[len(Prefix):]
	mount, name := rest, ""
	for i := 0; i < len(rest); i++ {
		if rest[i] == '/' {
			mount, name = rest[:i], rest[i+1:]
			break
		}
	}
	mountMu.Lock()
	d := mounts[mount]
	mountMu.Unlock()
	if d == nil {
		return nil, "", false
	}
	return d, name, true
}

var reTime = regexp.MustCompile(`"(CreateTime|SealTime)":"([^"]*)"`)

// canonMeta reduces the timestamps of a metadata record to zero / non-zero:
// only SealTime.IsZero() influences behaviour, and wall-clock values would make
// otherwise identical images distinct states.
var (
	canonMu    sync.Mutex
	canonCache = map[string][]byte{}
)

func canonMeta(b []byte) []byte {
	if b == nil {
		return nil
	}
	canonMu.Lock()
	c, ok := canonCache[string(b)]
	canonMu.Unlock()
	if ok {
		return c
	}
	c = canonMetaSlow(b)
	canonMu.Lock()
	if len(canonCache) > 20000 {
		canonCache = map[string][]byte{}
	}
	canonCache[string(b)] = c
	canonMu.Unlock()
	return c
}

func canonMetaSlow(b []byte) []byte {
	return reTime.ReplaceAllFunc(b, func(m []byte) []byte {
		sm := reTime.FindSubmatch(m)
		v := "T"
		if strings.HasPrefix(string(sm[2]), "0001-01-01T00:00:00") {
			v = "0"
		}
		return []byte(`"` + string(sm[1]) + `":"` + v + `"`)
	})
}

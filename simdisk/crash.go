package simdisk

import (
	"fmt"
	"sort"
	"strings"
)

type chunkW struct {
	idx int64
	val [8]byte
	n   int // valid bytes of val (the write's reach inside the chunk, 1..8)
	op  int // sequence number of the pwrite that produced it
}

type pfile struct {
	dur  []byte
	vol  []byte
	pend []chunkW
}

type dirop struct {
	kind  OpKind
	name  string
	name2 string
	ino   int
}

// Replay is the abstract persistence model: durable state + pending (not yet
// fsynced) directory operations, chunk writes and length changes.
type Replay struct {
	opSeq   int
	dirDur  map[string]int
	dirPend []dirop
	files   map[int]*pfile
	meta    []byte
	stable  map[string][]byte
}

func NewReplay(base *State, baseIno map[string]int) *Replay {
	r := &Replay{dirDur: map[string]int{}, files: map[int]*pfile{}, stable: map[string][]byte{}}
	for n, b := range base.Files {
		ino := baseIno[n]
		r.dirDur[n] = ino
		r.files[ino] = &pfile{dur: b, vol: append([]byte(nil), b...)}
	}
	r.meta = base.Meta
	for k, v := range base.Stable {
		r.stable[k] = v
	}
	return r
}

func (r *Replay) Clone() *Replay {
	c := &Replay{dirDur: map[string]int{}, files: map[int]*pfile{}, stable: map[string][]byte{}, meta: r.meta, opSeq: r.opSeq}
	for k, v := range r.dirDur {
		c.dirDur[k] = v
	}
	c.dirPend = append([]dirop(nil), r.dirPend...)
	for k, f := range r.files {
		c.files[k] = &pfile{dur: f.dur, vol: append([]byte(nil), f.vol...), pend: f.pend[:len(f.pend):len(f.pend)]}
	}
	for k, v := range r.stable {
		c.stable[k] = v
	}
	return c
}

func (r *Replay) file(ino int) *pfile {
	f := r.files[ino]
	if f == nil {
		f = &pfile{}
		r.files[ino] = f
	}
	return f
}

// Apply advances the model by one logged op.
func (r *Replay) Apply(o Op) {
	switch o.Kind {
	case OpCreate:
		r.file(o.Ino)
		r.dirPend = append(r.dirPend, dirop{kind: OpCreate, name: o.Name, ino: o.Ino})
	case OpUnlink:
		r.dirPend = append(r.dirPend, dirop{kind: OpUnlink, name: o.Name, ino: o.Ino})
	case OpRename:
		r.dirPend = append(r.dirPend, dirop{kind: OpRename, name: o.Name, name2: o.Name2})
	case OpFsyncDir:
		r.dirDur = applyDirOps(r.dirDur, r.dirPend, ^uint64(0))
		r.dirPend = nil
	case OpPrealloc, OpTruncate:
		f := r.file(o.Ino)
		nv := make([]byte, o.Size)
		copy(nv, f.vol)
		f.vol = nv
	case OpWrite:
		f := r.file(o.Ino)
		end := o.Off + int64(len(o.Data))
		if end > int64(len(f.vol)) {
			nv := make([]byte, end)
			copy(nv, f.vol)
			f.vol = nv
		}
		copy(f.vol[o.Off:], o.Data)
		r.opSeq++
		for c := o.Off / 8; c*8 < end; c++ {
			var w chunkW
			w.idx = c
			w.op = r.opSeq
			hi := c*8 + 8
			if hi > int64(len(f.vol)) {
				hi = int64(len(f.vol))
			}
			w.n = int(hi - c*8)
			copy(w.val[:], f.vol[c*8:hi])
			f.pend = append(f.pend, w)
		}
	case OpFsync:
		f := r.file(o.Ino)
		f.dur = append([]byte(nil), f.vol...)
		f.pend = nil
	case OpMetaCommit:
		r.meta = o.Data
	case OpStableSet:
		if o.Data == nil {
			delete(r.stable, o.Key)
		} else {
			r.stable[o.Key] = o.Data
		}
	}
}

func applyDirOps(dur map[string]int, ops []dirop, mask uint64) map[string]int {
	m := make(map[string]int, len(dur)+1)
	for k, v := range dur {
		m[k] = v
	}
	for i, o := range ops {
		if i < 64 && mask&(1<<uint(i)) == 0 {
			continue
		}
		switch o.kind {
		case OpCreate:
			if _, ok := m[o.name]; !ok {
				m[o.name] = o.ino
			}
		case OpUnlink:
			if ino, ok := m[o.name]; ok && ino == o.ino {
				delete(m, o.name)
			}
		case OpRename:
			if ino, ok := m[o.name]; ok {
				delete(m, o.name)
				m[o.name2] = ino
			}
		}
	}
	return m
}

// PendingSummary describes what is pending (for evidence and replays).
func (r *Replay) PendingSummary() string {
	var sb strings.Builder
	fmt.Fprintf(&sb, "dirops=%d", len(r.dirPend))
	inos := make([]int, 0, len(r.files))
	for i := range r.files {
		inos = append(inos, i)
	}
	sort.Ints(inos)
	for _, i := range inos {
		f := r.files[i]
		if len(f.pend) > 0 || len(f.vol) != len(f.dur) {
			fmt.Fprintf(&sb, " #%d:chunks=%d,len=%d->%d", i, len(f.pend), len(f.dur), len(f.vol))
		}
	}
	return sb.String()
}

// Unsynced reports, for one inode, how many chunk writes are still pending (not followed by an fsync of the
// file) and whether the directory entry created for it is still pending (not followed by a directory fsync).
func (r *Replay) Unsynced(ino int) (pendingChunks int, createPending bool, name string) {
	if f := r.files[ino]; f != nil {
		pendingChunks = len(f.pend)
	}
	for _, o := range r.dirPend {
		if o.kind == OpCreate && o.ino == ino {
			createPending, name = true, o.name
		}
	}
	return
}

// PendingChunks is the number of pending chunk writes over all files.
func (r *Replay) PendingChunks() int {
	n := 0
	for _, f := range r.files {
		n += len(f.pend)
	}
	return n
}

// NothingPending reports whether the volatile and durable views coincide.
func (r *Replay) NothingPending() bool {
	if len(r.dirPend) > 0 {
		return false
	}
	for _, f := range r.files {
		if len(f.pend) > 0 || len(f.vol) != len(f.dur) {
			return false
		}
	}
	return true
}

type fileVar struct {
	name    string
	f       *pfile
	lens    []int
	chunks  []int64    // distinct pending chunk indexes, ascending
	options [][]chunkW // per chunk: candidate landed values (option 0 = not landed is implicit)
}

func buildFileVar(name string, f *pfile) fileVar {
	v := fileVar{name: name, f: f}
	v.lens = []int{len(f.dur)}
	if len(f.vol) != len(f.dur) {
		v.lens = append(v.lens, len(f.vol))
	}
	seen := map[int64]int{}
	for _, w := range f.pend {
		// a pending value equal to the durable content of a chunk that lies wholly
		// inside the durable length is indistinguishable from "not landed"
		if w.idx*8+8 <= int64(len(f.dur)) && w.n == 8 {
			same := true
			for i := 0; i < 8; i++ {
				if f.dur[w.idx*8+int64(i)] != w.val[i] {
					same = false
					break
				}
			}
			if same {
				continue
			}
		}
		pos, ok := seen[w.idx]
		if !ok {
			pos = len(v.chunks)
			seen[w.idx] = pos
			v.chunks = append(v.chunks, w.idx)
			v.options = append(v.options, nil)
		}
		dup := false
		for _, o := range v.options[pos] {
			if o.val == w.val && o.n == w.n {
				dup = true
				break
			}
		}
		if !dup {
			v.options[pos] = append(v.options[pos], w)
		}
	}
	// sort chunks ascending, keeping options aligned
	idx := make([]int, len(v.chunks))
	for i := range idx {
		idx[i] = i
	}
	sort.Slice(idx, func(a, b int) bool { return v.chunks[idx[a]] < v.chunks[idx[b]] })
	ch := make([]int64, len(idx))
	op := make([][]chunkW, len(idx))
	for i, j := range idx {
		ch[i], op[i] = v.chunks[j], v.options[j]
	}
	v.chunks, v.options = ch, op
	return v
}

func (v *fileVar) build(lenChoice int, sel []int) []byte {
	L := v.lens[lenChoice]
	buf := make([]byte, L)
	copy(buf, v.f.dur)
	for i, s := range sel {
		if s == 0 {
			continue
		}
		w := v.options[i][s-1]
		end := int(w.idx*8) + w.n
		if end > len(buf) {
			nb := make([]byte, end)
			copy(nb, buf)
			buf = nb
		}
		copy(buf[w.idx*8:], w.val[:w.n])
	}
	return buf
}

// buildClipped is the image of a growing file whose length reached only L (durable length < L < latest
// length): below the durable length every pending chunk has landed; of the pending chunks in the grown
// part either all that lie wholly below L (withData) or none (a hole of zeros).
func (v *fileVar) buildClipped(L int, withData bool) []byte {
	buf := make([]byte, L)
	copy(buf, v.f.dur)
	for i := range v.chunks {
		if len(v.options[i]) == 0 {
			continue
		}
		w := v.options[i][len(v.options[i])-1]
		lo, end := int(w.idx*8), int(w.idx*8)+w.n
		if end > L {
			continue
		}
		if lo >= len(v.f.dur) && !withData {
			continue
		}
		copy(buf[lo:], w.val[:w.n])
	}
	return buf
}

// ImageInfo says how an image deviates from "everything pending landed".
type ImageInfo struct {
	Dropped int    // pending items that did not land
	Landed  int    // pending items that landed
	Desc    string // human-readable choice vector
}

// Enumerate calls fn for every crash image of the current model. If the
// number of combinations exceeds cap the enumeration is restricted to every
// assignment within Hamming distance 2 of all-landed and of none-landed plus
// every prefix and suffix of the pending chunks in file order, and exhaustive
// is false. fn returning false stops the enumeration.
func (r *Replay) Enumerate(cap int, fn func(st *State, info ImageInfo) bool) (count int, exhaustive bool) {
	exhaustive = true
	nd := len(r.dirPend)
	if nd > 16 {
		nd = 16
		exhaustive = false
	}
	seenDirs := map[string]bool{}
	for mask := uint64(0); mask < (1 << uint(nd)); mask++ {
		// highest masks last so that "all landed" is enumerated; order is irrelevant for coverage
		dm := applyDirOps(r.dirDur, r.dirPend, mask)
		names := make([]string, 0, len(dm))
		for n := range dm {
			names = append(names, n)
		}
		sort.Strings(names)
		var sig strings.Builder
		for _, n := range names {
			fmt.Fprintf(&sig, "%s#%d;", n, dm[n])
		}
		if seenDirs[sig.String()] {
			continue
		}
		seenDirs[sig.String()] = true
		dirDropped := 0
		for i := 0; i < len(r.dirPend); i++ {
			if i >= 64 || mask&(1<<uint(i)) == 0 {
				dirDropped++
			}
		}
		vars := make([]fileVar, 0, len(names))
		total := 1.0
		for _, n := range names {
			f := r.files[dm[n]]
			if f == nil {
				f = &pfile{}
			}
			v := buildFileVar(n, f)
			total *= float64(len(v.lens))
			for _, o := range v.options {
				total *= float64(1 + len(o))
			}
			vars = append(vars, v)
		}
		emit := func(lenSel []int, chunkSel [][]int) bool {
			st := NewState()
			dropped, landed := dirDropped, len(r.dirPend)-dirDropped
			var desc strings.Builder
			fmt.Fprintf(&desc, "dirmask=%b", mask)
			for i, v := range vars {
				st.Files[v.name] = v.build(lenSel[i], chunkSel[i])
				if len(v.lens) > 1 {
					if lenSel[i] == 0 {
						dropped++
					} else {
						landed++
					}
				}
				nz := 0
				for _, s := range chunkSel[i] {
					if s == 0 {
						dropped++
					} else {
						landed++
						nz++
					}
				}
				if len(v.lens) > 1 || len(v.chunks) > 0 {
					fmt.Fprintf(&desc, " %s:len%d,chunks=%v", v.name, lenSel[i], chunkSel[i])
				}
			}
			st.Meta = r.meta
			for k, v := range r.stable {
				st.Stable[k] = v
			}
			count++
			return fn(st, ImageInfo{Dropped: dropped, Landed: landed, Desc: desc.String()})
		}
		lenSel := make([]int, len(vars))
		chunkSel := make([][]int, len(vars))
		for i, v := range vars {
			chunkSel[i] = make([]int, len(v.chunks))
		}
		// family "the file grew only up to L": for every file with a pending growth, every length that is a
		// multiple of the 8-byte chunk strictly between the durable and the latest length (at most 96 of
		// them, evenly spread beyond that), with and without the data of the grown part; everything else landed.
		lengthFamily := func() bool {
			for gi, g := range vars {
				if len(g.lens) < 2 || g.lens[1] <= g.lens[0] {
					continue
				}
				lo, hi := (g.lens[0]/8+1)*8, g.lens[1]
				n := 0
				for L := lo; L < hi; L += 8 {
					n++
				}
				stride := 1
				if n > 96 {
					stride = (n + 95) / 96
				}
				k := 0
				for L := lo; L < hi; L += 8 {
					k++
					if (k-1)%stride != 0 {
						continue
					}
					for _, withData := range []bool{true, false} {
						st := NewState()
						for i, v := range vars {
							if i == gi {
								st.Files[v.name] = g.buildClipped(L, withData)
								continue
							}
							sel := make([]int, len(v.chunks))
							for j := range sel {
								sel[j] = len(v.options[j])
							}
							st.Files[v.name] = v.build(len(v.lens)-1, sel)
						}
						st.Meta = r.meta
						for k, v := range r.stable {
							st.Stable[k] = v
						}
						count++
						if !fn(st, ImageInfo{Dropped: dirDropped + 1, Landed: len(r.dirPend) - dirDropped, Desc: fmt.Sprintf("dirmask=%b %s:grown to %d of %d->%d,data=%v", mask, g.name, L, g.lens[0], g.lens[1], withData)}) {
							return false
						}
					}
				}
			}
			return true
		}
		if !lengthFamily() {
			return count, exhaustive
		}
		if total <= float64(cap) {
			// full mixed-radix enumeration
			for {
				if !emit(lenSel, chunkSel) {
					return count, exhaustive
				}
				// increment
				carry := true
				for i := 0; i < len(vars) && carry; i++ {
					for j := 0; j < len(chunkSel[i]) && carry; j++ {
						chunkSel[i][j]++
						if chunkSel[i][j] > len(vars[i].options[j]) {
							chunkSel[i][j] = 0
						} else {
							carry = false
						}
					}
					if carry {
						lenSel[i]++
						if lenSel[i] >= len(vars[i].lens) {
							lenSel[i] = 0
						} else {
							carry = false
						}
					}
				}
				if carry {
					break
				}
			}
			continue
		}
		// bounded fallback
		exhaustive = false
		// family 1: one pwrite torn at a time (every subset of its chunks) while every
		// other pending pwrite has landed completely or not at all
		{
			opset := map[int]bool{}
			for i := range vars {
				for j := range vars[i].options {
					for _, w := range vars[i].options[j] {
						opset[w.op] = true
					}
				}
			}
			var ops []int
			for o := range opset {
				ops = append(ops, o)
			}
			sort.Ints(ops)
			if len(ops) >= 2 && len(ops) <= 5 {
				type cpos struct{ i, j int }
				for xi, x := range ops {
					var xs []cpos
					for i := range vars {
						for j := range vars[i].options {
							for _, w := range vars[i].options[j] {
								if w.op == x {
									xs = append(xs, cpos{i, j})
									break
								}
							}
						}
					}
					if len(xs) > 14 {
						continue
					}
					nOther := len(ops) - 1
					for om := 0; om < (1 << uint(nOther)); om++ {
						landedOp := map[int]bool{}
						k := 0
						for yi, y := range ops {
							if yi == xi {
								continue
							}
							landedOp[y] = om&(1<<uint(k)) != 0
							k++
						}
						for sub := 0; sub < (1 << uint(len(xs))); sub++ {
							xl := map[cpos]bool{}
							for b, p := range xs {
								if sub&(1<<uint(b)) != 0 {
									xl[p] = true
								}
							}
							for i := range vars {
								lenSel[i] = len(vars[i].lens) - 1
								for j := range chunkSel[i] {
									best, bestOp := 0, -1
									for oi, w := range vars[i].options[j] {
										l := landedOp[w.op]
										if w.op == x {
											l = xl[cpos{i, j}]
										}
										if l && w.op > bestOp {
											best, bestOp = oi+1, w.op
										}
									}
									chunkSel[i][j] = best
								}
							}
							if !emit(lenSel, chunkSel) {
								return count, exhaustive
							}
						}
					}
				}
			}
		}
		type pos struct{ i, j int }
		var flat []pos
		for i := range vars {
			for j := range vars[i].chunks {
				flat = append(flat, pos{i, j})
			}
		}
		set := func(all bool) {
			for i := range vars {
				if all {
					lenSel[i] = len(vars[i].lens) - 1
				} else {
					lenSel[i] = 0
				}
				for j := range chunkSel[i] {
					if all {
						chunkSel[i][j] = len(vars[i].options[j])
					} else {
						chunkSel[i][j] = 0
					}
				}
			}
		}
		flip := func(p pos, all bool) {
			if all {
				chunkSel[p.i][p.j] = 0
			} else {
				chunkSel[p.i][p.j] = len(vars[p.i].options[p.j])
			}
		}
		for _, all := range []bool{true, false} {
			set(all)
			if !emit(lenSel, chunkSel) {
				return count, exhaustive
			}
			for a := 0; a < len(flat); a++ {
				set(all)
				flip(flat[a], all)
				if !emit(lenSel, chunkSel) {
					return count, exhaustive
				}
				for b := a + 1; b < len(flat); b++ {
					set(all)
					flip(flat[a], all)
					flip(flat[b], all)
					if !emit(lenSel, chunkSel) {
						return count, exhaustive
					}
				}
			}
			// prefixes and suffixes
			for a := 1; a < len(flat); a++ {
				set(all)
				for b := 0; b < a; b++ {
					flip(flat[b], all)
				}
				if !emit(lenSel, chunkSel) {
					return count, exhaustive
				}
			}
		}
	}
	return count, exhaustive
}

// Durable returns the image in which nothing pending landed... of the current
// model with every pending item applied (what a clean shutdown leaves).
func (r *Replay) AllLanded() *State {
	st := NewState()
	dm := applyDirOps(r.dirDur, r.dirPend, ^uint64(0))
	for n, ino := range dm {
		f := r.files[ino]
		if f == nil {
			st.Files[n] = nil
			continue
		}
		st.Files[n] = append([]byte(nil), f.vol...)
	}
	st.Meta = r.meta
	for k, v := range r.stable {
		st.Stable[k] = v
	}
	return st
}

// ---------------------------------------------------------------------------

// Step is one unit of the log for crash-point purposes: a single op, or a run
// of (unlink, fsyncdir) pairs whose order came from map iteration.
type Step struct {
	Lo, Hi int // log[Lo:Hi]
	Run    bool
}

// Steps splits a log into steps. A maximal sequence of strictly alternating
// unlink, fsyncdir pairs with at least two pairs becomes a Run.
func Steps(log []Op) []Step {
	var out []Step
	i := 0
	for i < len(log) {
		j := i
		for j+1 < len(log) && log[j].Kind == OpUnlink && log[j+1].Kind == OpFsyncDir {
			j += 2
		}
		if (j-i)/2 >= 2 {
			out = append(out, Step{Lo: i, Hi: j, Run: true})
			i = j
			continue
		}
		out = append(out, Step{Lo: i, Hi: i + 1})
		i++
	}
	return out
}

// RunVariants returns, for a run step applied on model r (state before the
// run), the models whose Enumerate results together cover every crash point
// inside the run under every ordering of its pairs. labels describe them.
func RunVariants(r *Replay, ops []Op) (models []*Replay, labels []string) {
	var unl []Op
	for _, o := range ops {
		if o.Kind == OpUnlink {
			unl = append(unl, o)
		}
	}
	m := len(unl)
	// j = 0, mid-pair: earlier pending ops + one pending unlink
	for _, u := range unl {
		c := r.Clone()
		c.Apply(u)
		models = append(models, c)
		labels = append(labels, "run:first-unlink-pending:"+u.Name)
	}
	// j >= 1 pairs complete: everything earlier is durable, any j-subset is gone
	base := r.Clone()
	base.Apply(Op{Kind: OpFsyncDir})
	for mask := 1; mask < (1 << uint(m)); mask++ {
		if mask == (1<<uint(m))-1 {
			continue // all gone == state after the run, enumerated by the caller
		}
		c := base.Clone()
		var gone []string
		for i, u := range unl {
			if mask&(1<<uint(i)) != 0 {
				c.Apply(u)
				gone = append(gone, u.Name)
			}
		}
		c.Apply(Op{Kind: OpFsyncDir})
		models = append(models, c)
		labels = append(labels, "run:gone="+strings.Join(gone, ","))
	}
	return
}

// EnumerateWholeWrites calls fn for the crash images in which every pending pwrite has landed completely or not
// at all (no tearing inside a write), for every subset of the pending pwrites (at most maxOps of them, else only
// all / none / each one missing / each one alone), every subset of the pending directory operations and, per
// file with a pending length change, the old and the new length.
func (r *Replay) EnumerateWholeWrites(maxOps int, fn func(st *State, info ImageInfo) bool) (count int) {
	opset := map[int]bool{}
	for _, f := range r.files {
		for _, w := range f.pend {
			opset[w.op] = true
		}
	}
	var ops []int
	for o := range opset {
		ops = append(ops, o)
	}
	sort.Ints(ops)
	var subsets []map[int]bool
	if len(ops) <= maxOps {
		for m := 0; m < 1<<uint(len(ops)); m++ {
			s := map[int]bool{}
			for i, o := range ops {
				if m&(1<<uint(i)) != 0 {
					s[o] = true
				}
			}
			subsets = append(subsets, s)
		}
	} else {
		all, none := map[int]bool{}, map[int]bool{}
		for _, o := range ops {
			all[o] = true
		}
		subsets = append(subsets, none, all)
		for _, o := range ops {
			one := map[int]bool{o: true}
			but := map[int]bool{}
			for _, p := range ops {
				if p != o {
					but[p] = true
				}
			}
			subsets = append(subsets, one, but)
		}
	}
	nd := len(r.dirPend)
	if nd > 10 {
		nd = 10
	}
	seen := map[string]bool{}
	for mask := uint64(0); mask < (1 << uint(nd)); mask++ {
		dm := applyDirOps(r.dirDur, r.dirPend, mask)
		names := make([]string, 0, len(dm))
		for n := range dm {
			names = append(names, n)
		}
		sort.Strings(names)
		for si, sub := range subsets {
			for lenNew := 0; lenNew < 2; lenNew++ {
				st := NewState()
				for _, n := range names {
					f := r.files[dm[n]]
					if f == nil {
						st.Files[n] = nil
						continue
					}
					L := len(f.dur)
					if lenNew == 1 {
						L = len(f.vol)
					}
					buf := make([]byte, L)
					copy(buf, f.dur)
					for _, w := range f.pend {
						if !sub[w.op] {
							continue
						}
						end := int(w.idx*8) + w.n
						if end > len(buf) {
							nb := make([]byte, end)
							copy(nb, buf)
							buf = nb
						}
						copy(buf[w.idx*8:], w.val[:w.n])
					}
					st.Files[n] = buf
				}
				st.Meta = r.meta
				for k, v := range r.stable {
					st.Stable[k] = v
				}
				h := st.Hash()
				if seen[h] {
					continue
				}
				seen[h] = true
				count++
				if !fn(st, ImageInfo{Landed: len(sub), Dropped: len(ops) - len(sub), Desc: fmt.Sprintf("dirmask=%b writes-landed=%d/%d(set %d) newlen=%d", mask, len(sub), len(ops), si, lenNew)}) {
					return count
				}
			}
		}
	}
	return count
}

// bigVars builds the per-file variables with every pending directory operation landed and names the file
// with the most pending chunks.
func (r *Replay) bigVars() (vars []fileVar, big int, order []int) {
	mask := uint64(0)
	for i := 0; i < len(r.dirPend) && i < 64; i++ {
		mask |= 1 << uint(i)
	}
	dm := applyDirOps(r.dirDur, r.dirPend, mask)
	names := make([]string, 0, len(dm))
	for n := range dm {
		names = append(names, n)
	}
	sort.Strings(names)
	big = -1
	for _, n := range names {
		f := r.files[dm[n]]
		if f == nil {
			f = &pfile{}
		}
		v := buildFileVar(n, f)
		vars = append(vars, v)
		if big < 0 || len(v.chunks) > len(vars[big].chunks) {
			big = len(vars) - 1
		}
	}
	if big < 0 || len(vars[big].chunks) == 0 {
		return nil, -1, nil
	}
	n := len(vars[big].chunks)
	order = make([]int, n)
	for i := range order {
		order[i] = i
	}
	sort.Slice(order, func(a, b int) bool { return vars[big].chunks[order[a]] < vars[big].chunks[order[b]] })
	return
}

// EnumerateRanges calls fn for images of a large pending write: every pending directory operation and length
// change has landed, other files have everything landed, and of the file with the most pending chunks (taken
// in file order, n of them) the chunks in [a,b) are missing (missing=true) or are the only ones that landed
// (missing=false), for every pair a<b with a, b multiples of unit (b = n allowed). unit <= 0 means one range
// per single chunk at stride -unit. This is the family "the pages of a large write reach the disk out of order".
func (r *Replay) EnumerateRanges(unit int, fn func(st *State, info ImageInfo) bool) (count int) {
	vars, big, order := r.bigVars()
	if big < 0 {
		return 0
	}
	n := len(order)
	emit := func(a, b int, missing bool) bool {
		st := NewState()
		landed := 0
		for i, v := range vars {
			sel := make([]int, len(v.chunks))
			for j := range sel {
				sel[j] = len(v.options[j])
			}
			if i == big {
				for k := 0; k < n; k++ {
					in := k >= a && k < b
					if in == missing {
						sel[order[k]] = 0
					} else {
						landed++
					}
				}
			}
			st.Files[v.name] = v.build(len(v.lens)-1, sel)
		}
		st.Meta = r.meta
		for k, v := range r.stable {
			st.Stable[k] = v
		}
		count++
		what := "missing"
		if !missing {
			what = "the only ones landed"
		}
		return fn(st, ImageInfo{Dropped: n - landed, Landed: landed, Desc: fmt.Sprintf("range: pending chunks [%d,%d) of %d of %s %s", a, b, n, vars[big].name, what)})
	}
	if unit <= 0 {
		stride := -unit
		if stride < 1 {
			stride = 1
		}
		for a := 0; a < n; a += stride {
			if !emit(a, a+1, true) {
				return count
			}
		}
		return count
	}
	var cuts []int
	for a := 0; a < n; a += unit {
		cuts = append(cuts, a)
	}
	cuts = append(cuts, n)
	for i := 0; i < len(cuts); i++ {
		for j := i + 1; j < len(cuts); j++ {
			if i == 0 && j == len(cuts)-1 {
				continue // everything / nothing: part of the prefix family
			}
			for _, missing := range []bool{true, false} {
				if !emit(cuts[i], cuts[j], missing) {
					return count
				}
			}
		}
	}
	return count
}

// EnumeratePrefixes calls fn for the images in which every pending directory operation and every pending
// length change has landed and, of the file with the most pending chunks, exactly the first p chunks in
// file order have landed, for p = 0, stride, 2*stride, ... and p = all (other files: everything landed).
// This is the family "a large write reached the disk up to some offset"; it stays small for writes of any size.
func (r *Replay) EnumeratePrefixes(stride int, fn func(st *State, info ImageInfo) bool) (count int) {
	if stride < 1 {
		stride = 1
	}
	mask := uint64(0)
	for i := 0; i < len(r.dirPend) && i < 64; i++ {
		mask |= 1 << uint(i)
	}
	dm := applyDirOps(r.dirDur, r.dirPend, mask)
	names := make([]string, 0, len(dm))
	for n := range dm {
		names = append(names, n)
	}
	sort.Strings(names)
	vars := make([]fileVar, 0, len(names))
	big := -1
	for _, n := range names {
		f := r.files[dm[n]]
		if f == nil {
			f = &pfile{}
		}
		v := buildFileVar(n, f)
		vars = append(vars, v)
		if big < 0 || len(v.chunks) > len(vars[big].chunks) {
			big = len(vars) - 1
		}
	}
	if big < 0 || len(vars[big].chunks) == 0 {
		return 0
	}
	n := len(vars[big].chunks)
	// chunks of the big file in file order
	order := make([]int, n)
	for i := range order {
		order[i] = i
	}
	sort.Slice(order, func(a, b int) bool { return vars[big].chunks[order[a]] < vars[big].chunks[order[b]] })
	emit := func(p int) bool {
		st := NewState()
		for i, v := range vars {
			sel := make([]int, len(v.chunks))
			for j := range sel {
				sel[j] = len(v.options[j]) // latest pending value
			}
			if i == big {
				for k := p; k < n; k++ {
					sel[order[k]] = 0
				}
			}
			st.Files[v.name] = v.build(len(v.lens)-1, sel)
		}
		st.Meta = r.meta
		for k, v := range r.stable {
			st.Stable[k] = v
		}
		count++
		return fn(st, ImageInfo{Dropped: n - p, Landed: p, Desc: fmt.Sprintf("prefix: first %d of %d pending chunks of %s landed", p, n, vars[big].name)})
	}
	for p := 0; p < n; p += stride {
		if !emit(p) {
			return count
		}
	}
	emit(n)
	return count
}

package main

import (
	"time"

	"verif/simdisk"

	"verif/harness/core"
)

func init() {
	engines["C05"] = func() *ShardResult { return runSeq("C05") }
	engines["C08"] = func() *ShardResult { return seqThenCrash("C08") }
	engines["C13"] = func() *ShardResult { return seqThenCrash("C13") }
	engines["C20"] = func() *ShardResult {
		total := *fBudget
		res := newResult()
		// the verifier's counters when a compaction overlaps a checkpoint's StoreLogs (scheduler part first)
		runVConc(res, "C20", total/6)
		*fBudget = total * 5 / 6
		res.merge(runSeq("C20"), "")
		*fBudget = total
		if *fShard == 0 {
			goMetricsPass("C20", res)
		}
		return res
	}
}

func badAppends(m *core.Model) []core.Op {
	var out []core.Op
	if m.Last == 0 {
		out = append(out, core.Op{K: "A", Idx: 3, Sizes: []int{4, 4}, Skip: 1, Gen: genOf(m, 3)}) // internally non-consecutive
		out = append(out, core.Op{K: "A", Idx: 0, Sizes: []int{4}})
		return out
	}
	out = append(out, core.Op{K: "A", Idx: m.Last + 2, Sizes: []int{4}, Gen: genOf(m, m.Last+2)})
	out = append(out, core.Op{K: "A", Idx: m.Last, Sizes: []int{4}, Gen: genOf(m, m.Last)})
	out = append(out, core.Op{K: "A", Idx: m.Last + 1, Sizes: []int{4, 4}, Skip: 1, Gen: genOf(m, m.Last+1)})
	return out
}

// delShapes: every prefix / suffix / middle / disjoint / everything shape.
func delShapes(m *core.Model) []core.Op {
	seen := map[[2]uint64]bool{}
	var out []core.Op
	add := func(a, b uint64) {
		k := [2]uint64{a, b}
		if seen[k] {
			return
		}
		seen[k] = true
		out = append(out, core.Op{K: "D", Min: a, Max: b})
	}
	if m.Last == 0 {
		add(1, 5)
		add(0, 0)
		return out
	}
	f, l := m.First, m.Last
	mid := (f + l) / 2
	add(l+1, l+5) // disjoint above
	if f > 1 {
		add(0, f-1) // disjoint below
		add(f-1, f) // overlapping head from below
	}
	add(l, f) // min > max when more than one entry, single entry otherwise
	add(f, f)
	add(f, mid)
	add(0, l)   // everything
	add(f, l+5) // everything, past the end
	add(l, l)
	add(mid+1, l)
	add(l, l+5)
	if l > f {
		add(f+1, l) // leaves one
	}
	if l-f >= 2 {
		add(f+1, l-1) // strict middle: must be rejected
		add(f+1, f+1)
	}
	return out
}

func runSeq(prop string) *ShardResult {
	res := newResult()
	thorough := *fTier == "thorough"
	sc := core.SeqCfg{Prop: prop, Shard: *fShard, NShards: *fNShards, MaxFindings: 40}
	cfgs := []core.Config{{SegSize: 128}, {SegSize: 64}, {SegSize: 4096}}
	switch prop {
	case "C05":
		// fourth configuration: a file system that reports io.EOF together with a full read ending at the end
		// of the file (io.ReaderAt allows both); matters where a segment file ends exactly at a frame
		cfgs = append(cfgs, core.Config{SegSize: 64, EagerEOF: true})
		sc.Depth, sc.RealDepth = 5, 2
		if thorough {
			sc.Depth, sc.RealDepth = 6, 3
		}
		sc.Alpha = func(m *core.Model) []core.Op {
			ops := appendOps(m, [][]int{{4}, {12, 4}})
			if m.Last == 0 {
				// a start index beyond 32 bits (offsets relative to the base index must not be narrowed)
				ops = append(ops, core.Op{K: "A", Idx: 1<<32 + 5, Sizes: []int{4, 4}, Gen: genOf(m, 1<<32+5)})
			}
			ops = append(ops, badAppends(m)...)
			ops = append(ops, delShapes(m)...)
			// clean reopen, with the same and with another configured segment size
			return append(ops, core.Op{K: "R"}, core.Op{K: "R", U64: 1})
		}
	case "C13":
		sc.Depth, sc.RealDepth = 4, 2
		if thorough {
			sc.Depth, sc.RealDepth = 6, 3
		}
		sc.Alpha = func(m *core.Model) []core.Op {
			ops := appendOps(m, [][]int{{4}, {4, 4, 4}})
			ops = append(ops, delOps(m, true, true)...)
			return append(ops, core.Op{K: "R"})
		}
	case "C14":
		// descriptors after Close: every sequence ends with Close; nothing may stay open
		sc.Prop = "C05"
		sc.Depth, sc.RealDepth = 4, 0
		if thorough {
			sc.Depth = 5
		}
		sc.Alpha = func(m *core.Model) []core.Op {
			ops := appendOps(m, [][]int{{4}, {4, 4, 4}})
			ops = append(ops, delOps(m, true, true)...)
			return append(ops, core.Op{K: "R"})
		}
	case "C08":
		sc.Depth, sc.RealDepth = 4, 3
		if thorough {
			sc.Depth, sc.RealDepth = 5, 4
		}
		sc.Alpha = func(m *core.Model) []core.Op {
			ops := []core.Op{
				{K: "S", Key: "k1", Val: []byte("a")},
				{K: "S", Key: "k1", Nil: true},
				{K: "S", Key: "k1", Val: []byte{}},
				{K: "S", Key: "k2", Val: []byte("123456789")},
				{K: "S", Key: "k2", Val: []byte{1, 2, 3, 4, 5, 6, 7, 8}},
				{K: "U", Key: "k1", U64: 7},
				{K: "U", Key: "k2", U64: 1 << 63},
			}
			ops = append(ops, appendOps(m, [][]int{{4, 4}})...)
			if m.Last > 0 {
				ops = append(ops, core.Op{K: "D", Min: m.First, Max: m.First}, core.Op{K: "D", Min: m.Last, Max: m.Last})
			}
			return append(ops, core.Op{K: "R"})
		}
	case "C20":
		sc.Depth, sc.Metrics = 5, true
		if thorough {
			sc.Depth = 6
		}
		sc.Alpha = func(m *core.Model) []core.Op {
			ops := appendOps(m, [][]int{{4}, {12, 4}})
			ops = append(ops, badAppends(m)...)
			ops = append(ops, delShapes(m)...)
			ops = append(ops, core.Op{K: "S", Key: "k1", Val: []byte("a")}, core.Op{K: "U", Key: "k2", U64: 9})
			return append(ops, core.Op{K: "R"})
		}
	}
	sc.Lazy = prop != "C20"
	res.Bounds["lazy_rotation_variant"] = sc.Lazy
	res.Bounds["depth"] = sc.Depth
	res.Bounds["real_stack_depth"] = sc.RealDepth
	res.Bounds["configs"] = cfgs
	start := time.Now()
	for ci, cfg := range cfgs {
		st := &core.SeqStats{}
		sc.Deadline = start.Add(*fBudget * time.Duration(ci+1) / time.Duration(len(cfgs)))
		e := core.NewSeqEngine(sc, cfg, st)
		e.Run()
		for _, f := range e.Findings {
			if prop != "C14" || f.Prop == "C14" {
				res.Findings = append(res.Findings, f)
			}
		}
		res.Counts["sequences"] += int64(st.Sequences)
		res.Counts["steps"] += int64(st.Steps)
		res.Counts["real_stack_runs"] += int64(st.RealRuns)
		res.Counts["lazy_rotation_runs"] += int64(st.LazyRuns)
		res.Counts["evaluations"] += int64(st.Sequences)
		res.Counts["transitions"] += int64(st.Steps)
		res.Counts["traces_validated"] += int64(st.Sequences + st.RealRuns)
		res.Counts["distinct_nontrivial"] += int64(st.NonTrivial)
		for s := range st.SeqSigs {
			res.Sets["states"] = append(res.Sets["states"], cfgName(cfg)+":"+s)
		}
		for k, v := range st.Outcomes {
			res.hist("final_ranges", k, int64(v))
		}
		res.Mins["depth_completed_"+cfgName(cfg)] = int64(st.DepthDone)
		if st.DeadlineHit {
			res.Exhaustive = false
		}
		res.Samples = append(res.Samples, st.Samples...)
	}
	if prop == "C20" {
		staticMetricSites(res)
	}
	return res
}

// seqThenCrash spends half the budget on operation sequences and half on
// crash images, with the property's own alphabets.
func seqThenCrash(prop string) *ShardResult {
	total := *fBudget
	*fBudget = total * 2 / 5
	if prop == "C13" {
		*fBudget = total / 3
	}
	res := newResult()
	res.merge(runSeq(prop), "seq_")
	res.merge(runCrash(prop), "crash_")
	*fBudget = total / 5
	if prop == "C13" {
		*fBudget = total / 6
	}
	res.merge(runSched(prop), "sched_")
	if prop == "C13" {
		// failing I/O: an ID handed to a file whose creation (or the commit after it) failed is not handed out again
		res.merge(runFault(prop), "fault_")
	}
	if prop == "C08" {
		// failing I/O: a Set that returns nil was stored, one that failed is reported as failed
		*fBudget = total / 8
		res.merge(runFault(prop), "fault_")
	}
	*fBudget = total
	if prop == "C08" && *fShard == 0 {
		heldValueCases(res)
	}
	return res
}

// goMetricsPass runs a few fixed workloads with the go-metrics collector (non-empty prefix with spare capacity)
// behind a probing sink: every emitted key is prefix + a published name, and no two keys share memory.
func goMetricsPass(prop string, res *ShardResult) {
	wls := [][]core.Op{
		{a(1, 0, 4), a(2, 0, 4), {K: "D", Min: 1, Max: 1}},
		{a(1, 0, 4, 4), a(3, 0, 4), {K: "D", Min: 3, Max: 3}, {K: "R"}, a(3, 1, 12)},
		{{K: "S", Key: "k1", Val: []byte("v")}, {K: "U", Key: "k2", U64: 7}, a(5, 0, 4)},
	}
	for _, cfg := range []core.Config{{SegSize: 64}, {SegSize: 4096}} {
		for _, ops := range wls {
			p := core.NewGoMetricsProbe()
			sys := core.Mount(simdisk.NewState(), cfg)
			if p.Collector != nil {
				sys.MC = p.Collector
			}
			core.RunSession(nil, cfg, ops, core.SessionOpts{Sys: sys, ObserveEach: true, CmpProp: "C05", CloseAtEnd: true})
			sys.Unmount()
			res.Counts["evaluations"]++
			res.Counts["go_metrics_collector_runs"]++
			res.Counts["traces_validated"]++
			for _, v := range p.Viol {
				if len(res.Findings) < 40 {
					res.Findings = append(res.Findings, core.Finding{Prop: prop, Engine: "gometrics", Msg: v, Cfg: cfg, Ops: ops, SigS: prop + "|gometrics|" + firstLine(v)})
				}
			}
		}
	}
}

package main

import "fmt"

func replayMain(path string) int {
	fmt.Println("replay not implemented yet:", path)
	return 2
}

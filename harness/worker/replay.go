package main

import (
	"encoding/json"
	"fmt"
	"os"
	"strings"

	"verif/harness/core"
	"verif/simdisk"
)

// replayMain re-executes the single case stored in a replay artefact through
// the plain session functions (no exploration) and prints what it observes.
// Exit 1 = the violation shows again, 0 = it does not, 2 = cannot replay.
func replayMain(path string) int {
	b, err := os.ReadFile(path)
	if err != nil {
		fmt.Fprintln(os.Stderr, err)
		return 2
	}
	var f core.Finding
	if err := json.Unmarshal(b, &f); err != nil {
		fmt.Fprintln(os.Stderr, "bad artefact:", err)
		return 2
	}
	fmt.Printf("replaying %s finding of engine %q: %s\n", f.Prop, f.Engine, firstLine(f.Msg))
	show := func(vs []core.Violation) int {
		n := 0
		for _, v := range vs {
			fmt.Printf("  [%s] %s\n", v.Prop, v.Msg)
			n++
		}
		if n > 0 {
			fmt.Println("REPRODUCED")
			return 1
		}
		fmt.Println("NOT REPRODUCED (no oracle clause failed on this tree)")
		return 0
	}
	switch f.Engine {
	case "seq", "format":
		sys := core.Mount(simdisk.NewState(), f.Cfg)
		defer sys.Unmount()
		so := core.SessionOpts{Sys: sys, ObserveEach: true, CmpProp: f.Prop, CloseAtEnd: true}
		if f.Engine == "format" {
			fo := newFormatOracle()
			so.AfterStep = fo.afterStep
		}
		if f.Prop == "C20" {
			mm := core.NewMetricsModel()
			sys.MC, sys.Cnt, so.AfterStep = mm.Collector, &mm.Exp, mm.AfterStep
		}
		fmt.Printf("  config %+v ops %s\n", f.Cfg, core.OpsString(f.Ops))
		sr := core.RunSession(nil, f.Cfg, f.Ops, so)
		vs := sr.Viol
		so.Lazy = true
		sys2 := core.Mount(simdisk.NewState(), f.Cfg)
		so.Sys = sys2
		so.AfterStep = nil
		if f.Engine == "format" {
			eo := &endOracle{model: core.NewModel(), n: len(f.Ops)}
			so.AfterStep = eo.afterStep
		}
		vs = append(vs, core.RunSession(nil, f.Cfg, f.Ops, so).Viol...)
		sys2.Unmount()
		return show(vs)
	case "crash":
		return replayCrash(&f, show)
	case "sched":
		raw, _ := json.Marshal(f.Extra["scenario"])
		var sc core.Scenario
		if err := json.Unmarshal(raw, &sc); err != nil {
			fmt.Fprintln(os.Stderr, "bad scenario:", err)
			return 2
		}
		var sched []int
		raw, _ = json.Marshal(f.Extra["schedule"])
		json.Unmarshal(raw, &sched)
		fmt.Printf("  scenario %q schedule %v\n", sc.Name, sched)
		res, rec := core.RunScenario(&sc, core.NewPrefixChooser(sched), false)
		fmt.Println("  history:", core.HistoryString(rec))
		return show(core.CheckExecution(&sc, res, rec))
	case "vconc":
		raw, _ := json.Marshal(f.Extra["scenario"])
		var sc core.VConc
		if err := json.Unmarshal(raw, &sc); err != nil {
			fmt.Fprintln(os.Stderr, "bad scenario:", err)
			return 2
		}
		var sched []int
		raw, _ = json.Marshal(f.Extra["schedule"])
		json.Unmarshal(raw, &sched)
		fmt.Printf("  scenario %q schedule %v\n", sc.Name, sched)
		_, o := core.RunVConc(core.NewPrefixChooser(sched), &sc)
		fmt.Println("  outcome:", o.History)
		return show(o.Viol)
	case "fault":
		raw, _ := json.Marshal(f.Extra["fault"])
		var fp core.FaultPlan
		json.Unmarshal(raw, &fp)
		fmt.Printf("  config %+v ops %s %s\n", f.Cfg, core.OpsString(f.Ops), fp.String())
		var p *core.FaultPlan
		if fp.At >= 0 {
			p = &fp
		}
		cont := faultCont
		if strings.HasPrefix(f.Msg, "[continuation without retry]") {
			cont = faultContNoRetry
		}
		if f.Prop == "C09" {
			core.FaultFinalHook = func(s *core.Sys, shown *core.Model) []core.Violation {
				eo := &endOracle{model: shown, afterFaults: true, what: "after I/O failures, the fault cleared and two clean reopens: "}
				return eo.check(s)
			}
		}
		r := core.RunFault(f.Cfg, f.Ops, cont, p)
		fmt.Println("  failing step:", r.HitOp, "outcome:", r.Outcome)
		return show(r.Viol)
	case "cluster":
		raw, _ := json.Marshal(f.Extra["events"])
		var evs []core.VEvent
		json.Unmarshal(raw, &evs)
		nodes := 2
		if n, ok := f.Extra["nodes"].(float64); ok {
			nodes = int(n)
		}
		var mut *core.Mutation
		if m, ok := f.Extra["mutation"]; ok {
			raw, _ := json.Marshal(m)
			mut = &core.Mutation{}
			json.Unmarshal(raw, mut)
		}
		fmt.Printf("  %d nodes, events %s mutation %v\n", nodes, core.VEventsString(evs), mut)
		r := replayCluster(nodes, evs, nil, mut, true)
		if r.panicMsg != "" {
			fmt.Println("  panic/deadlock:", r.panicMsg)
			fmt.Println("REPRODUCED")
			return 1
		}
		return show(r.viol)
	case "twin":
		if ops, ok := f.Extra["ops"]; ok {
			raw, _ := json.Marshal(ops)
			var tops []core.TOp
			json.Unmarshal(raw, &tops)
			fmt.Printf("  twin sequence %s\n", twinString(tops))
			return show(core.RunTwin(tops, core.Config{SegSize: 200}).Viol)
		}
		if sch, ok := f.Extra["schedule"]; ok {
			raw, _ := json.Marshal(sch)
			var sched []int
			json.Unmarshal(raw, &sched)
			open, _ := f.Extra["gate_opens"].(bool)
			n := 3
			if c, ok := f.Extra["checkpoints"].(float64); ok {
				n = int(c)
			}
			trunc, _ := f.Extra["truncate_last"].(bool)
			_, br := core.RunBlockedReportT(core.NewPrefixChooser(sched), n, open, trunc)
			fmt.Println("  outcome:", br.History)
			return show(br.Viol)
		}
	}
	fmt.Printf("engine %q enumerates its cases from fixed menus; the case is described in the artefact (%v) and re-running `vcheck %s` re-executes it\n", f.Engine, f.Extra, f.Prop)
	return 2
}

// replayCrash follows the recorded path: per level record the workload, take
// the recorded crash position and image, and finally recover the last image.
func replayCrash(f *core.Finding, show func([]core.Violation) int) int {
	st := simdisk.NewState()
	var model *core.Model
	for li, ps := range f.Path {
		fmt.Printf("  level %d: ops %s, crash before log index %d %s, image %s (%s)\n", li+1, core.OpsString(ps.Ops), ps.K, ps.Variant, ps.Img, ps.ImgDesc)
		img, m, err := core.ReplayCrashStep(st, f.Cfg, ps, model)
		if err != nil {
			fmt.Println("  cannot follow the recorded path:", err)
			return 2
		}
		st, model = img, m
	}
	ops := append([]core.Op{{K: "R"}}, f.Ops...)
	sr := core.RunSession(st, f.Cfg, ops, core.SessionOpts{ObserveEach: true, CmpProp: f.Prop, CloseAtEnd: true})
	if sr.OpenObs != nil {
		fmt.Println("  recovered:", sr.OpenObs.Sig())
	}
	if f.Legal != "" {
		fmt.Println("  legal:    ", f.Legal)
	}
	vs := sr.Viol
	if f.Prop == "C09" && sr.OpenErr == nil && len(sr.Models) > 0 {
		// the format-after-recovery clause: one more batch, clean Close, independent decoding of the files
		vs = append(vs, formatLeafHook(nil)(st, f.Cfg, sr.Models[0])...)
		return show(vs)
	}
	if sr.OpenObs != nil && f.Obs != "" && sr.OpenObs.Sig() == f.Obs && len(vs) == 0 {
		// same recovery as recorded: the recorded verdict stands
		vs = append(vs, core.Violation{Prop: f.Prop, Msg: f.Msg})
	}
	return show(vs)
}

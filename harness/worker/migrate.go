package main

import (
	"context"
	"errors"
	"fmt"
	"math"
	"os"
	"path/filepath"
	"runtime/debug"
	"sort"
	"time"

	"github.com/hashicorp/raft"
	raftboltdb "github.com/hashicorp/raft-boltdb/v2"
	"github.com/hashicorp/raft-wal/migrate"

	"verif/harness/core"
	"verif/simdisk"
)

func init() { engines["C19"] = runMigrate }

type storeKind int

const (
	skWAL storeKind = iota
	skInmem
	skBolt
)

func (k storeKind) String() string { return [...]string{"wal", "inmem", "boltdb"}[k] }

type anyStore struct {
	kind  storeKind
	log   raft.LogStore
	st    raft.StableStore
	close func()
}

func newStore(k storeKind) (*anyStore, error) {
	switch k {
	case skInmem:
		s := raft.NewInmemStore()
		return &anyStore{kind: k, log: s, st: s, close: func() {}}, nil
	case skBolt:
		dir, err := os.MkdirTemp(core.ScratchRoot(), "verif-bolt-")
		if err != nil {
			return nil, err
		}
		b, err := raftboltdb.NewBoltStore(filepath.Join(dir, "raft.db"))
		if err != nil {
			os.RemoveAll(dir)
			return nil, err
		}
		return &anyStore{kind: k, log: b, st: b, close: func() { b.Close(); os.RemoveAll(dir) }}, nil
	default:
		sys := core.Mount(simdisk.NewState(), core.Config{SegSize: 256})
		if err := sys.Open(); err != nil {
			sys.Unmount()
			return nil, err
		}
		return &anyStore{kind: k, log: sys.W, st: sys.W, close: func() { sys.W.Close(); sys.Unmount() }}, nil
	}
}

// cancelAt cancels the context when the k-th GetLog is issued.
type cancelAt struct {
	raft.LogStore
	n, k   int
	cancel context.CancelFunc
}

func (c *cancelAt) GetLog(i uint64, l *raft.Log) error {
	c.n++
	if c.n == c.k {
		c.cancel()
	}
	return c.LogStore.GetLog(i, l)
}

func mkMigLog(idx uint64, size int) *raft.Log {
	l := core.MkLog(idx, 2, size)
	l.Type = raft.LogType(idx % 4)
	if idx%2 == 0 {
		l.Extensions = []byte{byte(idx), 9}
	}
	return l
}

func progressClosed(ch chan string) bool {
	for {
		select {
		case _, ok := <-ch:
			if !ok {
				return true
			}
		default:
			return false
		}
	}
}

func runMigrate() *ShardResult {
	res := newResult()
	thorough := *fTier == "thorough"
	deadline := time.Now().Add(*fBudget)
	lengths := []int{0, 1, 2, 3, 4}
	sizes := []int{0, 1, 31, 32, 33}
	if thorough {
		lengths = []int{0, 1, 2, 3, 4, 5}
	}
	batchBytes := []int{0, 1, 32, 33, 64, 65, 1 << 30, 1 << 60, math.MaxInt, -1}
	firsts := []uint64{1, 5}
	kinds := []storeKind{skWAL, skInmem, skBolt}
	res.Bounds["lengths"] = lengths
	res.Bounds["entry_sizes"] = sizes
	res.Bounds["batch_bytes"] = batchBytes
	res.Bounds["first_indexes"] = firsts
	res.Bounds["stores"] = []string{"wal", "inmem", "boltdb"}
	add := func(msg string, extra map[string]interface{}) {
		f := core.Finding{Prop: "C19", Engine: "migrate", Msg: msg, Extra: extra}
		f.SigS = "C19|migrate|" + msg
		if len(res.Findings) < 60 {
			res.Findings = append(res.Findings, f)
		}
	}
	caseNo := 0
	// enumerate size vectors
	var vecs func(n int) [][]int
	vecs = func(n int) [][]int {
		if n == 0 {
			return [][]int{{}}
		}
		var out [][]int
		for _, v := range vecs(n - 1) {
			for _, s := range sizes {
				out = append(out, append(append([]int{}, v...), s))
			}
		}
		return out
	}
	outcomes := map[string]bool{}
	for _, n := range lengths {
		for _, vec := range vecs(n) {
			for _, first := range firsts {
				if n == 0 && first != 1 {
					continue
				}
				for _, bb := range batchBytes {
					for _, sk := range kinds {
						for _, dk := range kinds {
							// the bolt store is slow to create: pair it only with the WAL and with itself on small cases
							if (sk == skBolt || dk == skBolt) && !(n <= 2 && (bb == 0 || bb == 33 || bb == 1<<30)) {
								continue
							}
							for cancel := 0; cancel <= n; cancel++ { // 0 = no cancellation
								if cancel > 0 && (sk != skInmem || dk != skWAL) {
									continue
								}
								caseNo++
								if *fNShards > 1 && caseNo%*fNShards != *fShard {
									continue
								}
								if time.Now().After(deadline) {
									res.Exhaustive = false
									goto done
								}
								desc := map[string]interface{}{"n": n, "sizes": vec, "first": first, "batch_bytes": bb, "src": sk.String(), "dst": dk.String(), "cancel_at_getlog": cancel}
								res.Counts["evaluations"]++
								res.Counts["transitions"]++
								res.Counts["traces_validated"]++
								if n > 0 {
									res.Counts["distinct_nontrivial"]++
								}
								oc := migrateCase(n, vec, first, bb, sk, dk, cancel, func(m string) { add(m, desc) })
								outcomes[fmt.Sprintf("n=%d,%s", n, oc)] = true
								if len(res.Samples) < 3 && n == 3 && cancel == 2 {
									res.Samples = append(res.Samples, desc)
								}
							}
						}
					}
				}
			}
		}
	}
done:
	// CopyStable
	stableCases(res, add)
	for o := range outcomes {
		res.Sets["states"] = append(res.Sets["states"], o)
	}
	return res
}

func migrateCase(n int, vec []int, first uint64, bb int, sk, dk storeKind, cancelK int, bad func(string)) (oc string) {
	defer func() {
		if r := recover(); r != nil {
			bad(fmt.Sprintf("CopyLogs panics: %v\n%s", r, trimRepoStack(string(debug.Stack()))))
			oc = "panic"
		}
	}()
	src, err := newStore(sk)
	if err != nil {
		bad("INTERNAL cannot create source store: " + err.Error())
		return "internal"
	}
	defer src.close()
	dst, err := newStore(dk)
	if err != nil {
		bad("INTERNAL cannot create destination store: " + err.Error())
		return "internal"
	}
	defer dst.close()
	var want []*raft.Log
	for i := 0; i < n; i++ {
		want = append(want, mkMigLog(first+uint64(i), vec[i]))
	}
	if n > 0 {
		cp := make([]*raft.Log, n)
		for i, l := range want {
			c := *l
			cp[i] = &c
		}
		if err := src.log.StoreLogs(cp); err != nil {
			bad("INTERNAL cannot fill source: " + err.Error())
			return "internal"
		}
	}
	ctx, cancel := context.WithCancel(context.Background())
	defer cancel()
	var s raft.LogStore = src.log
	if cancelK > 0 {
		s = &cancelAt{LogStore: src.log, k: cancelK, cancel: cancel}
	}
	prog := make(chan string, 4096)
	err = migrate.CopyLogs(ctx, dst.log, s, bb, prog)
	if !progressClosed(prog) {
		bad(fmt.Sprintf("progress channel not closed on return (err=%v)", err))
	}
	df, _ := dst.log.FirstIndex()
	dl, _ := dst.log.LastIndex()
	if cancelK > 0 {
		if err == nil && cancelK == n {
			// cancellation arrived during the last read: the copy may legitimately have completed
			cancelK = 0
		} else if !errors.Is(err, context.Canceled) {
			bad(fmt.Sprintf("cancelled during GetLog #%d of %d: CopyLogs returned %v, want the context's error", cancelK, n, err))
		}
	}
	if cancelK > 0 {
		// destination must hold a prefix
		if dl != 0 {
			if df != first || dl > first+uint64(n)-1 {
				bad(fmt.Sprintf("after cancellation destination holds [%d,%d], not a prefix of [%d,%d]", df, dl, first, first+uint64(n)-1))
			}
			for i := df; i <= dl; i++ {
				var g raft.Log
				if e := dst.log.GetLog(i, &g); e != nil || !core.LogsEqual(&g, want[i-first]) {
					bad(fmt.Sprintf("after cancellation destination entry %d differs from the source (err=%v)", i, e))
				}
			}
		}
		return "cancelled"
	}
	if err != nil {
		bad(fmt.Sprintf("CopyLogs returned error: %v", err))
		return "error"
	}
	wf, wl := uint64(0), uint64(0)
	if n > 0 {
		wf, wl = first, first+uint64(n)-1
	}
	if df != wf || dl != wl {
		bad(fmt.Sprintf("destination FirstIndex/LastIndex = %d/%d, source %d/%d", df, dl, wf, wl))
		return "mismatch"
	}
	for i := 0; i < n; i++ {
		var g raft.Log
		if e := dst.log.GetLog(first+uint64(i), &g); e != nil {
			bad(fmt.Sprintf("destination GetLog(%d): %v", first+uint64(i), e))
		} else if !core.LogsEqual(&g, want[i]) {
			bad(fmt.Sprintf("destination entry %d = %s, source %s", first+uint64(i), core.Fingerprint(&g), core.Fingerprint(want[i])))
		}
	}
	return "copied"
}

func stableCases(res *ShardResult, add func(string, map[string]interface{})) {
	if *fShard != 0 {
		return
	}
	intKeys := []string{"CurrentTerm", "LastVoteTerm"}
	byteKeys := []string{"LastVoteCand"}
	kinds := []storeKind{skWAL, skInmem, skBolt}
	for mask := 0; mask < 8; mask++ {
		for extra := 0; extra < 4; extra++ {
			for _, sk := range kinds {
				for _, dk := range kinds {
					// stores that answer "not found" with an error for unset keys make CopyStable fail; that is not asserted
					if sk != skWAL && mask != 7 {
						continue
					}
					src, err := newStore(sk)
					if err != nil {
						continue
					}
					dst, err := newStore(dk)
					if err != nil {
						src.close()
						continue
					}
					desc := map[string]interface{}{"keys_set_mask": mask, "extra_keys": extra, "src": sk.String(), "dst": dk.String()}
					res.Counts["evaluations"]++
					res.Counts["stable_cases"]++
					res.Counts["distinct_nontrivial"]++
					wantI := map[string]uint64{}
					wantB := map[string][]byte{}
					for i, k := range intKeys {
						if mask&(1<<uint(i)) != 0 {
							wantI[k] = uint64(100 + i)
							src.st.SetUint64([]byte(k), wantI[k])
						}
					}
					if mask&4 != 0 {
						wantB[byteKeys[0]] = []byte("cand-1")
						src.st.Set([]byte(byteKeys[0]), wantB[byteKeys[0]])
					}
					var ek, eik [][]byte
					if extra >= 2 && (sk != skInmem || dk != skInmem) {
						// a name used in both key spaces needs stores that keep Set and SetUint64 apart
						src.close()
						dst.close()
						continue
					}
					switch extra {
					case 2:
						// the same name as a byte key and as an integer key ("we don't assume all implementations
						// share a key space for Set and SetUint64"), and a second, ordinary pair after it
						ek = [][]byte{[]byte("xs"), []byte("xk")}
						eik = [][]byte{[]byte("xs"), []byte("xi")}
						wantB["xs"], wantB["xk"] = []byte("both"), []byte{9}
						wantI["xs"], wantI["xi"] = 77, 1<<40
						src.st.Set([]byte("xs"), wantB["xs"])
						src.st.Set([]byte("xk"), wantB["xk"])
						src.st.SetUint64([]byte("xs"), 77)
						src.st.SetUint64([]byte("xi"), 1<<40)
					case 3:
						// an extra byte key named like a standard integer key, and the other way round
						ek = [][]byte{[]byte("CurrentTerm")}
						eik = [][]byte{[]byte("LastVoteCand")}
						wantB["CurrentTerm"] = []byte("as bytes")
						wantI["LastVoteCand"] = 5
						src.st.Set([]byte("CurrentTerm"), wantB["CurrentTerm"])
						src.st.SetUint64([]byte("LastVoteCand"), 5)
					}
					if extra == 1 {
						ek = [][]byte{[]byte("xk")}
						eik = [][]byte{[]byte("xi")}
						wantB["xk"] = []byte{1, 2, 3}
						wantI["xi"] = 1 << 40
						src.st.Set([]byte("xk"), wantB["xk"])
						src.st.SetUint64([]byte("xi"), wantI["xi"])
					}
					prog := make(chan string, 1024)
					err = migrate.CopyStable(context.Background(), dst.st, src.st, ek, eik, prog)
					if !progressClosed(prog) {
						add("CopyStable: progress channel not closed on return", desc)
					}
					if err != nil {
						add("CopyStable returned error: "+err.Error(), desc)
					} else {
						for k, v := range wantI {
							g, e := dst.st.GetUint64([]byte(k))
							if e != nil || g != v {
								add(fmt.Sprintf("CopyStable: int key %s = %d (err %v), source %d", k, g, e, v), desc)
							}
						}
						for k, v := range wantB {
							g, e := dst.st.Get([]byte(k))
							if e != nil || string(g) != string(v) {
								add(fmt.Sprintf("CopyStable: key %s = %q (err %v), source %q", k, g, e, v), desc)
							}
						}
					}
					// a source that cannot read one of the keys it holds: the copy is incomplete, so it must not return nil
					if err == nil && sk == skWAL && dk == skInmem {
						var keys []string
						for k := range wantI {
							keys = append(keys, k)
						}
						for k := range wantB {
							keys = append(keys, k)
						}
						sort.Strings(keys)
						for _, fk := range keys {
							d2, e2 := newStore(skInmem)
							if e2 != nil {
								continue
							}
							res.Counts["evaluations"]++
							res.Counts["stable_read_fault_cases"]++
							fsrc := &failingStable{StableStore: src.st, key: fk}
							p3 := make(chan string, 1024)
							if err := migrate.CopyStable(context.Background(), d2.st, fsrc, ek, eik, p3); err == nil {
								add(fmt.Sprintf("CopyStable returned nil although the source failed to read key %s (which it holds): the destination lacks it", fk), desc)
							}
							if !progressClosed(p3) {
								add("CopyStable (source read fails): progress channel not closed", desc)
							}
							d2.close()
						}
					}
					// cancelled context
					ctx, cancel := context.WithCancel(context.Background())
					cancel()
					prog2 := make(chan string, 1024)
					if err := migrate.CopyStable(ctx, dst.st, src.st, nil, nil, prog2); !errors.Is(err, context.Canceled) {
						add(fmt.Sprintf("CopyStable with cancelled context returned %v", err), desc)
					}
					if !progressClosed(prog2) {
						add("CopyStable (cancelled): progress channel not closed", desc)
					}
					src.close()
					dst.close()
				}
			}
		}
	}
}

// failingStable fails every read of one key.
type failingStable struct {
	raft.StableStore
	key string
}

func (f *failingStable) Get(k []byte) ([]byte, error) {
	if string(k) == f.key {
		return nil, errors.New("injected read failure")
	}
	return f.StableStore.Get(k)
}

func (f *failingStable) GetUint64(k []byte) (uint64, error) {
	if string(k) == f.key {
		return 0, errors.New("injected read failure")
	}
	return f.StableStore.GetUint64(k)
}

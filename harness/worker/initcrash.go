package main

import (
	"encoding/json"
	"fmt"
	"os"
	"os/exec"
	"path/filepath"
	"strings"
	"time"

	wal "github.com/hashicorp/raft-wal"
	"go.etcd.io/bbolt"

	"verif/harness/core"
)

// initCrashImages: crash images of the very first initialisation of a WAL directory, on the real filesystem
// with the real bbolt store. The metadata database is built under wal-meta.db.tmp and renamed into place,
// so a crash before the rename leaves an arbitrary partial wal-meta.db.tmp and no wal-meta.db. The images
// enumerated: the finished tmp file with every subset of its pages zeroed (pages not yet written back),
// every prefix length in page steps, a few sub-page lengths, and a well-formed bbolt file holding none or
// one of the two buckets. From every one of them Open must succeed, accept entries, and show them again
// after a clean reopen; nothing may be left of the tmp file that a later Open trips over.
func initCrashImages(res *ShardResult) {
	// in a child process: a store that maps a torn file can make the process die with a bus error
	out := filepath.Join(os.TempDir(), fmt.Sprintf("verif-init-%d.json", os.Getpid()))
	defer os.Remove(out)
	defer os.Remove(out + ".progress")
	start, crashes := 0, 0
	for crashes < 4 {
		os.Remove(out)
		cmd := exec.Command(os.Args[0], "-prop", "C03INIT", "-seed", fmt.Sprint(start), "-out", out)
		b, err := cmd.CombinedOutput()
		var child ShardResult
		if raw, e := os.ReadFile(out); e == nil {
			json.Unmarshal(raw, &child)
		}
		if child.Done {
			res.merge(&child, "")
			return
		}
		// died: the progress file names the image it was working on
		crashes++
		prog, _ := os.ReadFile(out + ".progress")
		var idx int
		var name string
		if i := strings.IndexByte(string(prog), ' '); i > 0 {
			fmt.Sscan(string(prog[:i]), &idx)
			name = string(prog[i+1:])
		}
		msg := string(b)
		if i := strings.Index(msg, "goroutine "); i > 0 {
			msg = msg[:i]
		}
		if len(msg) > 600 {
			msg = msg[:600]
		}
		res.Findings = append(res.Findings, core.Finding{Prop: "C03", Engine: "initcrash", SigS: "C03|initcrash|died|" + name, Extra: map[string]interface{}{"case": name},
			Msg: fmt.Sprintf("real fs + bbolt: first initialisation interrupted leaving [%s] as wal-meta.db.tmp: Open kills the process (%v)\n%s", name, err, msg)})
		res.Counts["evaluations"]++
		res.Counts["first_init_images"]++
		start = idx + 1
	}
}

func init() {
	engines["C03INIT"] = func() *ShardResult { res := newResult(); initCrashImagesChild(res); return res }
}

func initCrashImagesChild(res *ShardResult) {
	add := func(name, msg string) {
		if len(res.Findings) < 40 {
			res.Findings = append(res.Findings, core.Finding{Prop: "C03", Engine: "initcrash", Msg: msg, SigS: "C03|initcrash|" + name, Extra: map[string]interface{}{"case": name}})
		}
	}
	// the finished tmp file: run a real initialisation and keep a copy of the database it produced (empty state)
	src, err := os.MkdirTemp(core.ScratchRoot(), "verif-init-src-")
	if err != nil {
		return
	}
	defer os.RemoveAll(src)
	w, err := wal.Open(src, wal.WithSegmentSize(128))
	if err != nil {
		add("setup", fmt.Sprintf("real fs + bbolt: Open of an empty directory failed: %v", err))
		return
	}
	w.Close()
	// a fresh database as safeInitBoltDB builds it cannot be taken from src (the first Open already
	// committed state to it); build the three well-formed variants directly
	mk := func(buckets ...string) []byte {
		p := filepath.Join(src, "mk.db")
		os.Remove(p)
		db, err := bbolt.Open(p, 0o644, &bbolt.Options{Timeout: 2 * time.Second})
		if err != nil {
			return nil
		}
		if len(buckets) > 0 {
			db.Update(func(tx *bbolt.Tx) error {
				for _, b := range buckets {
					if _, err := tx.CreateBucket([]byte(b)); err != nil {
						return err
					}
				}
				return nil
			})
		}
		db.Close()
		b, _ := os.ReadFile(p)
		return b
	}
	full := mk("wal-meta", "stable")
	type img struct {
		name string
		b    []byte
	}
	var imgs []img
	imgs = append(imgs, img{"no tmp file", nil}, img{"empty tmp file", []byte{}}, img{"one byte", []byte{0xed}}, img{"100 bytes of the finished file", full[:100]})
	imgs = append(imgs, img{"well-formed bbolt file without buckets", mk()}, img{"well-formed bbolt file with only the metadata bucket", mk("wal-meta")},
		img{"well-formed bbolt file with only the stable bucket", mk("stable")}, img{"finished tmp file (crash just before the rename)", full})
	const page = 4096
	np := len(full) / page
	if np > 8 {
		np = 8
	}
	for l := 1; l*page < len(full); l++ {
		imgs = append(imgs, img{fmt.Sprintf("first %d pages of the finished file", l), full[:l*page]})
	}
	for mask := 1; mask < 1<<uint(np); mask++ {
		b := append([]byte{}, full...)
		for p := 0; p < np; p++ {
			if mask&(1<<uint(p)) != 0 {
				for i := p * page; i < (p+1)*page; i++ {
					b[i] = 0
				}
			}
		}
		imgs = append(imgs, img{fmt.Sprintf("finished file with pages %b (bit mask) never written back", mask), b})
	}
	res.Bounds["first_init_images"] = fmt.Sprintf("%d images of wal-meta.db.tmp (finished file is %d pages)", len(imgs), len(full)/page)
	for ii, im := range imgs {
		if ii < int(*fSeed) {
			continue
		}
		os.WriteFile(*fOut+".progress", []byte(fmt.Sprintf("%d %s", ii, im.name)), 0o644)
		res.Counts["evaluations"]++
		res.Counts["first_init_images"]++
		res.Counts["traces_validated"]++
		dir, err := os.MkdirTemp(core.ScratchRoot(), "verif-init-")
		if err != nil {
			continue
		}
		if im.b != nil {
			os.WriteFile(filepath.Join(dir, "wal-meta.db.tmp"), im.b, 0o644)
		}
		type out struct {
			msg string
		}
		done := make(chan string, 1)
		go func() {
			defer func() {
				if r := recover(); r != nil {
					done <- fmt.Sprintf("panic: %v", r)
				}
			}()
			w, err := wal.Open(dir, wal.WithSegmentSize(128))
			if err != nil {
				done <- fmt.Sprintf("Open failed: %v", err)
				return
			}
			for i := uint64(1); i <= 3; i++ {
				if err := w.StoreLog(core.MkLog(i, 0, 4)); err != nil {
					w.Close()
					done <- fmt.Sprintf("StoreLog(%d) failed: %v", i, err)
					return
				}
			}
			if err := w.Set([]byte("k1"), []byte("v")); err != nil {
				w.Close()
				done <- fmt.Sprintf("Set failed: %v", err)
				return
			}
			w.Close()
			w2, err := wal.Open(dir, wal.WithSegmentSize(128))
			if err != nil {
				done <- fmt.Sprintf("clean reopen failed: %v", err)
				return
			}
			defer w2.Close()
			f, _ := w2.FirstIndex()
			l, _ := w2.LastIndex()
			if f != 1 || l != 3 {
				done <- fmt.Sprintf("after a clean reopen the log is [%d,%d], want [1,3]", f, l)
				return
			}
			v, err := w2.Get([]byte("k1"))
			if err != nil || string(v) != "v" {
				done <- fmt.Sprintf("after a clean reopen Get(k1) = %q, %v", v, err)
				return
			}
			done <- ""
		}()
		select {
		case msg := <-done:
			if msg != "" {
				add(im.name, fmt.Sprintf("real fs + bbolt: first initialisation interrupted leaving [%s] as wal-meta.db.tmp: %s", im.name, msg))
			}
			os.RemoveAll(dir)
		case <-time.After(30 * time.Second):
			add(im.name, fmt.Sprintf("real fs + bbolt: first initialisation interrupted leaving [%s] as wal-meta.db.tmp: Open has not returned after 30 s", im.name))
		}
	}
}

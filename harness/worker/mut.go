package main

import (
	"bytes"
	"encoding/binary"
	"encoding/json"
	"fmt"
	"os"
	"path/filepath"
	"runtime"
	"sort"
	"strings"
	"time"

	"github.com/hashicorp/raft"
	wal "github.com/hashicorp/raft-wal"
	"github.com/hashicorp/raft-wal/fs"
	"github.com/hashicorp/raft-wal/segment"
	"github.com/hashicorp/raft-wal/types"
	"go.etcd.io/bbolt"

	"verif/fmtspec"
	"verif/harness/core"
	"verif/shim/vsched"
	"verif/simdisk"
)

func init() { engines["C11"] = runMut }

type mutBase struct {
	name string
	cfg  core.Config
	st   *simdisk.State
	meta types.PersistentState
}

func buildBases() ([]*mutBase, error) {
	type spec struct {
		name string
		cfg  core.Config
		ops  []core.Op
	}
	a := func(idx uint64, sizes ...int) core.Op { return core.Op{K: "A", Idx: idx, Sizes: sizes} }
	specs := []spec{
		{"tail-only", core.Config{SegSize: 4096}, []core.Op{a(1, 4), a(2, 12, 4)}},
		{"sealed+tail", core.Config{SegSize: 128}, []core.Op{a(1, 4), a(2, 4), a(3, 4), a(4, 12)}},
		{"head+tail-truncated", core.Config{SegSize: 128}, []core.Op{a(1, 4), a(2, 4), a(3, 4), a(4, 4), a(5, 4), {K: "D", Min: 1, Max: 1}, {K: "D", Min: 5, Max: 5}, a(5, 12)}},
		{"sealed-in-one-batch", core.Config{SegSize: 64}, []core.Op{a(1, 20, 4), a(3, 4)}},
	}
	var out []*mutBase
	for _, sp := range specs {
		sys := core.Mount(simdisk.NewState(), sp.cfg)
		sr := core.RunSession(nil, sp.cfg, sp.ops, core.SessionOpts{Sys: sys, CloseAtEnd: true, CmpProp: "INTERNAL", ObserveEach: true})
		if len(sr.Viol) > 0 {
			sys.Unmount()
			return nil, fmt.Errorf("base %s: %v", sp.name, sr.Viol[0].Msg)
		}
		st := sys.Disk.Volatile()
		meta, _ := core.DecodeMeta(st.Meta)
		sys.Unmount()
		out = append(out, &mutBase{name: sp.name, cfg: sp.cfg, st: st, meta: meta})
	}
	return out, nil
}

type mutant struct {
	desc     string
	st       *simdisk.State
	wantFail bool // Open must fail (sealed segment missing / below header / foreign header)
}

func withFile(st *simdisk.State, name string, b []byte) *simdisk.State {
	c := st.Clone()
	if b == nil {
		delete(c.Files, name)
	} else {
		c.Files[name] = b
	}
	return c
}

func meaningfulLen(b []byte) int {
	n := len(b)
	for n > 0 && b[n-1] == 0 {
		n--
	}
	n += 16
	if n > len(b) {
		n = len(b)
	}
	return (n + 7) &^ 7
}

// enumerateMutants calls fn for every mutant of the base (the full menu of DESIGN 3.6).
func enumerateMutants(b *mutBase, fn func(m *mutant)) {
	names := b.st.Names()
	byteMenu := func(x byte) []byte {
		return []byte{0x00, 0x01, 0x02, 0x03, 0x04, 0x7f, 0x80, 0xff, x ^ 0x01, x ^ 0x80}
	}
	sealedName := map[string]bool{}
	for i, sg := range b.meta.Segments {
		if i < len(b.meta.Segments)-1 {
			sealedName[segment.FileName(sg)] = true
		}
	}
	for _, name := range names {
		orig := b.st.Files[name]
		n := meaningfulLen(orig)
		if n > len(orig) {
			n = len(orig)
		}
		mut := func(desc string, f func(c []byte) []byte, wantFail bool) {
			c := append([]byte(nil), orig...)
			c = f(c)
			fn(&mutant{desc: fmt.Sprintf("%s/%s: %s", b.name, name, desc), st: withFile(b.st, name, c), wantFail: wantFail})
		}
		// single byte replacements
		for off := 0; off < n; off++ {
			seen := map[byte]bool{orig[off]: true}
			for _, v := range byteMenu(orig[off]) {
				if seen[v] {
					continue
				}
				seen[v] = true
				off, v := off, v
				mut(fmt.Sprintf("byte[%d]=%#02x", off, v), func(c []byte) []byte { c[off] = v; return c }, false)
			}
		}
		// truncations
		for l := 0; l <= n; l++ {
			l := l
			mut(fmt.Sprintf("truncate to %d", l), func(c []byte) []byte { return c[:l] }, sealedName[name] && l < 32)
		}
		// chunks zeroed, singly and in pairs; chunk copied over chunk
		nc := n / 8
		for i := 0; i < nc; i++ {
			i := i
			mut(fmt.Sprintf("zero chunk %d", i), func(c []byte) []byte { copy(c[i*8:i*8+8], make([]byte, 8)); return c }, false)
			for j := i + 1; j < nc; j++ {
				j := j
				mut(fmt.Sprintf("zero chunks %d,%d", i, j), func(c []byte) []byte {
					copy(c[i*8:i*8+8], make([]byte, 8))
					copy(c[j*8:j*8+8], make([]byte, 8))
					return c
				}, false)
			}
			for j := 0; j < nc; j++ {
				if i == j {
					continue
				}
				j := j
				mut(fmt.Sprintf("copy chunk %d over %d", j, i), func(c []byte) []byte { copy(c[i*8:i*8+8], orig[j*8:j*8+8]); return c }, false)
			}
		}
		// frame length fields
		if d, err := fmtspec.DecodeSegment(orig); err == nil {
			offs := append([]uint32{}, d.Offsets...)
			if d.IndexStart > 0 {
				offs = append(offs, uint32(d.IndexStart-8))
			}
			for _, fo := range offs {
				for _, v := range []uint32{0, 1, 7, 8, uint32(len(orig)), uint32(len(orig)) + 1, 64 << 10, 64 << 20, 64<<20 + 1, 1<<32 - 1} {
					fo, v := fo, v
					mut(fmt.Sprintf("frame@%d length=%d", fo, v), func(c []byte) []byte { binary.LittleEndian.PutUint32(c[fo+4:], v); return c }, false)
				}
			}
		}
		// structural damage of sealed segments
		if sealedName[name] {
			fn(&mutant{desc: fmt.Sprintf("%s/%s: file removed", b.name, name), st: withFile(b.st, name, nil), wantFail: true})
			for _, other := range names {
				if other != name && len(b.st.Files[other]) >= 32 && !bytes.Equal(b.st.Files[other][:32], orig[:32]) && !allZero(b.st.Files[other][:32]) {
					other := other
					mut("header of "+other, func(c []byte) []byte { copy(c[:32], b.st.Files[other][:32]); return c }, true)
				}
			}
		}
	}
	// garbage file names and stray files
	fn(&mutant{desc: b.name + ": stray file notes.txt", st: withFile(b.st, "notes.txt", []byte("hello"))})
	fn(&mutant{desc: b.name + ": badly named segment x.wal", st: withFile(b.st, "x.wal", []byte("hello"))})
	fn(&mutant{desc: b.name + ": orphan segment with garbage", st: withFile(b.st, segment.FileName(types.SegmentInfo{BaseIndex: 77, ID: 99}), bytes.Repeat([]byte{0xAB}, 100))})
	// metadata record
	meta := b.st.Meta
	for off := 0; off < len(meta); off++ {
		seen := map[byte]bool{meta[off]: true}
		for _, v := range byteMenu(meta[off]) {
			if seen[v] {
				continue
			}
			seen[v] = true
			c := b.st.Clone()
			m := append([]byte(nil), meta...)
			m[off] = v
			c.Meta = m
			fn(&mutant{desc: fmt.Sprintf("%s/meta: byte[%d]=%#02x", b.name, off, v), st: c})
		}
	}
	for l := 0; l < len(meta); l++ {
		c := b.st.Clone()
		c.Meta = append([]byte(nil), meta[:l]...)
		fn(&mutant{desc: fmt.Sprintf("%s/meta: truncate to %d", b.name, l), st: c})
	}
	// every numeric field of the record set to 0, 1, max
	fieldsDone := 0
	for si := range b.meta.Segments {
		for f := 0; f < 7; f++ {
			for _, v := range []uint64{0, 1, 1<<32 - 1, 1<<64 - 1} {
				ms := b.meta
				ms.Segments = append([]types.SegmentInfo{}, b.meta.Segments...)
				sg := &ms.Segments[si]
				var fname string
				switch f {
				case 0:
					sg.ID, fname = v, "ID"
				case 1:
					sg.BaseIndex, fname = v, "BaseIndex"
				case 2:
					sg.MinIndex, fname = v, "MinIndex"
				case 3:
					sg.MaxIndex, fname = v, "MaxIndex"
				case 4:
					sg.Codec, fname = v, "Codec"
				case 5:
					sg.IndexStart, fname = v, "IndexStart"
				case 6:
					sg.SizeLimit, fname = uint32(v), "SizeLimit"
				}
				c := b.st.Clone()
				c.Meta = mustJSON(ms)
				fn(&mutant{desc: fmt.Sprintf("%s/meta: segment[%d].%s=%d", b.name, si, fname, v), st: c})
				fieldsDone++
			}
		}
	}
	for _, v := range []uint64{0, 1, 1<<64 - 1} {
		ms := b.meta
		ms.NextSegmentID = v
		c := b.st.Clone()
		c.Meta = mustJSON(ms)
		fn(&mutant{desc: fmt.Sprintf("%s/meta: NextSegmentID=%d", b.name, v), st: c})
	}
	// segment list permutations
	if len(b.meta.Segments) >= 2 {
		ms := b.meta
		ms.Segments = append([]types.SegmentInfo{}, b.meta.Segments...)
		ms.Segments[0], ms.Segments[1] = ms.Segments[1], ms.Segments[0]
		c := b.st.Clone()
		c.Meta = mustJSON(ms)
		fn(&mutant{desc: b.name + "/meta: first two segments swapped", st: c})
		ms2 := b.meta
		ms2.Segments = append([]types.SegmentInfo{}, b.meta.Segments[1:]...)
		c2 := b.st.Clone()
		c2.Meta = mustJSON(ms2)
		fn(&mutant{desc: b.name + "/meta: first segment dropped from the list", st: c2})
	}
}

func mustJSON(v interface{}) []byte {
	b, _ := jsonMarshal(v)
	return b
}

type mutOutcome struct {
	openErr  string
	panicMsg string
	hang     bool
	alloc    uint64
	reads    int
	readErrs int
	dumpErr  string
}

func runMutant(b *mutBase, m *mutant) *mutOutcome {
	out := &mutOutcome{}
	var ms0, ms1 runtime.MemStats
	runtime.ReadMemStats(&ms0)
	sys := core.Mount(m.st, b.cfg)
	sys.Disk.NoLog = true
	res := vsched.Run(vsched.DefaultChooser{}, 400000, false, func() {
		err := sys.Open()
		vsched.Quiesce()
		if err != nil {
			out.openErr = err.Error()
		} else {
			f, _ := sys.W.FirstIndex()
			l, _ := sys.W.LastIndex()
			lo, hi := f, l
			if lo > 0 {
				lo--
			}
			if hi-lo > 64 {
				hi = lo + 64
			}
			for i := lo; i <= hi+1; i++ {
				var lg raft.Log
				out.reads++
				if err := sys.W.GetLog(i, &lg); err != nil {
					out.readErrs++
				}
			}
			sys.W.Close()
			vsched.Quiesce()
		}
		// dump utilities never use the metadata
		filer := segment.NewFiler(sys.Dir, fs.New())
		n := 0
		err = filer.DumpLogs(0, 0, func(info types.SegmentInfo, e types.LogEntry) (bool, error) {
			n++
			return n < 10000, nil
		})
		if err != nil {
			out.dumpErr = err.Error()
		}
	})
	sys.Unmount()
	runtime.ReadMemStats(&ms1)
	out.alloc = ms1.TotalAlloc - ms0.TotalAlloc
	for _, p := range res.Panics {
		out.panicMsg = p.Val + "\n" + trimRepoStack(p.Stack)
	}
	if res.StepLimit {
		out.hang = true
	}
	if res.Deadlock {
		out.panicMsg = fmt.Sprintf("deadlock: %v", res.Blocked)
	}
	return out
}

func trimRepoStack(s string) string {
	var out []string
	for _, l := range strings.Split(s, "\n") {
		if strings.Contains(l, "raft-wal") || strings.Contains(l, "/repo/") || strings.Contains(l, "overlay") {
			out = append(out, strings.TrimSpace(l))
		}
		if len(out) > 10 {
			break
		}
	}
	return strings.Join(out, "\n")
}

func runMut() *ShardResult {
	res := newResult()
	deadline := time.Now().Add(*fBudget)
	bases, err := buildBases()
	if err != nil {
		res.Findings = append(res.Findings, core.Finding{Prop: "INTERNAL", Msg: err.Error()})
		return res
	}
	var bn []string
	for _, b := range bases {
		bn = append(bn, b.name)
	}
	res.Bounds["bases"] = bn
	res.Bounds["menu"] = "single-byte replacements {00,01,02,03,04,7f,80,ff,b^01,b^80} at every offset; every truncation length; every chunk and pair of chunks zeroed; every chunk copied over every other; every frame length field in {0,1,7,8,size,size+1,64Ki,64Mi,64Mi+1,2^32-1}; sealed file removed / below header / foreign header; stray and misnamed files; metadata record: byte menu at every offset, every truncation, every numeric field in {0,1,2^32-1,2^64-1}, list permutations; entry encodings: every truncation, every field replaced by an overflowing varint"
	add := func(sig, msg string) {
		if len(res.Findings) < 40 {
			res.Findings = append(res.Findings, core.Finding{Prop: "C11", Engine: "mut", Msg: msg, SigS: "C11|mut|" + sig})
		}
	}
	n := 0
	outcomes := map[string]bool{}
	const maxEntry = 64 << 20
	for _, b := range bases {
		var dirBytes uint64
		for _, f := range b.st.Files {
			dirBytes += uint64(len(f))
		}
		bound := uint64(maxEntry) + 16*dirBytes + (8 << 20)
		stop := false
		enumerateMutants(b, func(m *mutant) {
			if stop {
				return
			}
			n++
			if *fNShards > 1 && n%*fNShards != *fShard {
				return
			}
			if time.Now().After(deadline) {
				res.Exhaustive = false
				stop = true
				return
			}
			o := runMutant(b, m)
			res.Counts["evaluations"]++
			res.Counts["transitions"]++
			res.Counts["traces_validated"]++
			if o.openErr != "" || o.readErrs > 0 || o.dumpErr != "" {
				res.Counts["distinct_nontrivial"]++
			}
			oc := "ok"
			if o.openErr != "" {
				oc = "open-error"
			} else if o.readErrs > 0 {
				oc = "read-error"
			}
			outcomes[b.name+":"+oc] = true
			if o.panicMsg != "" {
				add("panic|"+firstLine(o.panicMsg)+"|"+lastFrame(o.panicMsg), fmt.Sprintf("panic on mutant [%s]: %s", m.desc, o.panicMsg))
			}
			if o.hang {
				add("hang|"+m.desc, fmt.Sprintf("mutant [%s] does not terminate (step limit)", m.desc))
			}
			if o.alloc > bound {
				add("alloc|"+m.desc, fmt.Sprintf("mutant [%s] allocated %d bytes, bound %d (directory %d bytes, MaxEntrySize 64 MiB)", m.desc, o.alloc, bound, dirBytes))
			}
			if m.wantFail && o.openErr == "" && o.panicMsg == "" {
				add("silent|"+m.desc, fmt.Sprintf("mutant [%s]: a sealed segment is missing/damaged at its header but Open succeeded", m.desc))
			}
			if len(res.Samples) < 4 && o.openErr != "" && n%97 == 0 {
				res.Samples = append(res.Samples, map[string]interface{}{"mutant": m.desc, "open_error": o.openErr})
			}
		})
	}
	if *fShard == 0 {
		decodeMutants(res, add)
		realStackReopen(res, add)
	}
	for o := range outcomes {
		res.Sets["states"] = append(res.Sets["states"], o)
	}
	if len(res.Samples) == 0 {
		res.Samples = append(res.Samples, "sealed+tail/00000000000000000001-0000000000000000.wal: truncate to 31")
	}
	return res
}

func lastFrame(s string) string {
	ls := strings.Split(s, "\n")
	for _, l := range ls {
		if strings.Contains(l, ".go:") {
			return l
		}
	}
	return ""
}

// decodeMutants: structural damage of an encoded entry must yield an error.
func decodeMutants(res *ShardResult, add func(string, string)) {
	codec := &wal.BinaryCodec{}
	logs := []*raft.Log{core.MkLog(5, 1, 12), {Index: 1 << 40, Term: 1 << 20, Type: raft.LogBarrier, Data: bytes.Repeat([]byte{7}, 200), Extensions: []byte{1, 2, 3}, AppendedAt: time.Now()}}
	overflow := bytes.Repeat([]byte{0xff}, 11)
	overlong := append(bytes.Repeat([]byte{0x80}, 10), 0x01)
	try := func(desc string, b []byte, mustErr bool) {
		res.Counts["evaluations"]++
		res.Counts["decode_mutants"]++
		var l raft.Log
		var err error
		func() {
			defer func() {
				if r := recover(); r != nil {
					add("decode-panic|"+fmt.Sprint(r), fmt.Sprintf("Decode panics on %s: %v", desc, r))
					err = fmt.Errorf("panic")
				}
			}()
			err = codec.Decode(b, &l)
		}()
		if mustErr && err == nil {
			add("decode-noerr|"+desc, fmt.Sprintf("Decode of %s returned no error", desc))
		}
	}
	for li, l := range logs {
		var buf bytes.Buffer
		codec.Encode(l, &buf)
		enc := buf.Bytes()
		for n := 0; n < len(enc); n++ {
			try(fmt.Sprintf("entry %d truncated to %d of %d bytes", li, n, len(enc)), enc[:n], true)
		}
		// field boundaries
		offs := []int{0}
		o := 0
		for f := 0; f < 3; f++ {
			_, k := binary.Uvarint(enc[o:])
			o += k
			offs = append(offs, o)
		}
		dl, k := binary.Uvarint(enc[o:])
		dataLenOff := o
		o += k + int(dl)
		extLenOff := o
		for fi, fo := range []int{offs[0], offs[1], offs[2], dataLenOff, extLenOff} {
			_, k := binary.Uvarint(enc[fo:])
			for vi, bad := range [][]byte{overflow, overlong} {
				m := append(append(append([]byte{}, enc[:fo]...), bad...), enc[fo+k:]...)
				try(fmt.Sprintf("entry %d field %d replaced by varint variant %d", li, fi, vi), m, true)
			}
			// length fields claiming more than is there
			if fi >= 3 {
				m := append(append(append([]byte{}, enc[:fo]...), binary.AppendUvarint(nil, 1<<40)...), enc[fo+k:]...)
				try(fmt.Sprintf("entry %d length field %d = 2^40", li, fi), m, true)
			}
		}
	}
	try("empty buffer", nil, true)
	try("eleven 0xff bytes", overflow, true)
}

// realStackReopen: after a failed Open on the real filesystem with the real
// bbolt store, a second Open of the same directory in the same process must
// not block.
func realStackReopen(res *ShardResult, add func(string, string)) {
	type dmg struct {
		name  string
		f     func(dir string, segs []string)
		codec wal.Codec // the refused Open uses this codec (the directory itself is intact)
	}
	dmgs := []dmg{
		{name: "badly named x.wal", f: func(dir string, segs []string) { os.WriteFile(filepath.Join(dir, "x.wal"), []byte("junk"), 0o644) }},
		{name: "sealed segment removed", f: func(dir string, segs []string) { os.Remove(filepath.Join(dir, segs[0])) }},
		{name: "sealed segment truncated to 10 bytes", f: func(dir string, segs []string) { os.Truncate(filepath.Join(dir, segs[0]), 10) }},
		{name: "sealed segment carries another header", f: func(dir string, segs []string) {
			b, _ := os.ReadFile(filepath.Join(dir, segs[1]))
			f, _ := os.OpenFile(filepath.Join(dir, segs[0]), os.O_RDWR, 0)
			f.WriteAt(b[:32], 0)
			f.Close()
		}},
		{name: "metadata record is not JSON", f: func(dir string, segs []string) {
			db, err := bbolt.Open(filepath.Join(dir, "wal-meta.db"), 0o600, &bbolt.Options{Timeout: 2 * time.Second})
			if err != nil {
				return
			}
			db.Update(func(tx *bbolt.Tx) error { return tx.Bucket([]byte("wal-meta")).Put([]byte("m"), []byte("{not json")) })
			db.Close()
		}},
		{name: "metadata lists an unsealed segment that is not the last", f: func(dir string, segs []string) {
			db, err := bbolt.Open(filepath.Join(dir, "wal-meta.db"), 0o600, &bbolt.Options{Timeout: 2 * time.Second})
			if err != nil {
				return
			}
			db.Update(func(tx *bbolt.Tx) error {
				bk := tx.Bucket([]byte("wal-meta"))
				var st types.PersistentState
				json.Unmarshal(bk.Get([]byte("m")), &st)
				st.Segments[0].SealTime = time.Time{}
				b, _ := json.Marshal(st)
				return bk.Put([]byte("m"), b)
			})
			db.Close()
		}},
	}
	dmgs = append(dmgs, dmg{name: "intact directory opened with another codec (must be refused)", f: func(string, []string) {}, codec: &idCodec{id: 77777}})
	for _, d := range dmgs {
		res.Counts["evaluations"]++
		res.Counts["real_stack_reopen_cases"]++
		dir, err := os.MkdirTemp(core.ScratchRoot(), "verif-mut-")
		if err != nil {
			continue
		}
		w, err := wal.Open(dir, wal.WithSegmentSize(128))
		if err != nil {
			os.RemoveAll(dir)
			continue
		}
		for i := uint64(1); i <= 7; i++ {
			w.StoreLog(core.MkLog(i, 0, 4))
		}
		time.Sleep(30 * time.Millisecond)
		w.Close()
		ents, _ := os.ReadDir(dir)
		var segs []string
		for _, e := range ents {
			if strings.HasSuffix(e.Name(), ".wal") {
				segs = append(segs, e.Name())
			}
		}
		sort.Strings(segs)
		if len(segs) < 2 {
			os.RemoveAll(dir)
			continue
		}
		d.f(dir, segs)
		first := make(chan error, 1)
		go func() {
			var err error
			if d.codec != nil {
				_, err = wal.Open(dir, wal.WithSegmentSize(128), wal.WithCodec(d.codec))
			} else {
				_, err = wal.Open(dir, wal.WithSegmentSize(128))
			}
			first <- err
		}()
		var err1 error
		select {
		case err1 = <-first:
		case <-time.After(30 * time.Second):
			add("real-hang|"+d.name, fmt.Sprintf("real fs + bbolt: Open of a directory with [%s] has not returned after 30 s (it must report an error)", d.name))
			continue // the directory stays: the blocked call still holds it
		}
		if err1 == nil {
			add("real-silent|"+d.name, fmt.Sprintf("real fs + bbolt: Open succeeded on a directory with [%s]", d.name))
			os.RemoveAll(dir)
			continue
		}
		done := make(chan error, 1)
		go func() {
			w2, err := wal.Open(dir, wal.WithSegmentSize(128))
			if err == nil {
				w2.Close()
			}
			done <- err
		}()
		select {
		case <-done:
		case <-time.After(10 * time.Second):
			add("real-locked|", fmt.Sprintf("real fs + bbolt: after Open failed (%v) on [%s], a second Open of the same directory in the same process is still blocked after 10 s: the failed Open left the metadata database locked", err1, d.name))
		}
		os.RemoveAll(dir)
	}
}

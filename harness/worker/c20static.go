package main

import (
	"fmt"
	"go/ast"
	"go/parser"
	"go/token"
	"os"
	"path/filepath"
	"strconv"
	"strings"

	wal "github.com/hashicorp/raft-wal"
	"github.com/hashicorp/raft-wal/metrics"
	"github.com/hashicorp/raft-wal/verifier"

	"verif/harness/core"
)

// staticMetricSites enumerates the finite set of IncrementCounter / SetGauge
// call sites in the current tree (go/ast) and checks each literal name against
// the published definitions of its package.
func staticMetricSites(res *ShardResult) {
	type pkg struct {
		dir  string
		defs metrics.Definitions
	}
	repo := "/repo"
	if v := os.Getenv("VERIF_REPO"); v != "" {
		repo = v
	}
	pkgs := []pkg{{repo, wal.MetricDefinitions}, {repo + "/verifier", verifier.MetricDefinitions}}
	for _, p := range pkgs {
		counters, gauges := map[string]bool{}, map[string]bool{}
		for _, d := range p.defs.Counters {
			counters[d.Name] = true
		}
		for _, d := range p.defs.Gauges {
			gauges[d.Name] = true
		}
		ents, _ := os.ReadDir(p.dir)
		for _, e := range ents {
			n := e.Name()
			if e.IsDir() || !strings.HasSuffix(n, ".go") || strings.HasSuffix(n, "_test.go") {
				continue
			}
			fset := token.NewFileSet()
			f, err := parser.ParseFile(fset, filepath.Join(p.dir, n), nil, 0)
			if err != nil {
				continue
			}
			ast.Inspect(f, func(nd ast.Node) bool {
				c, ok := nd.(*ast.CallExpr)
				if !ok {
					return true
				}
				se, ok := c.Fun.(*ast.SelectorExpr)
				if !ok || (se.Sel.Name != "IncrementCounter" && se.Sel.Name != "SetGauge") || len(c.Args) != 2 {
					return true
				}
				res.Counts["metric_call_sites"]++
				pos := fset.Position(c.Pos())
				lit, ok := c.Args[0].(*ast.BasicLit)
				if !ok || lit.Kind != token.STRING {
					res.Notes = append(res.Notes, fmt.Sprintf("metric name at %s is not a literal; covered only dynamically", pos))
					return true
				}
				name, _ := strconv.Unquote(lit.Value)
				set := counters
				if se.Sel.Name == "SetGauge" {
					set = gauges
				}
				if !set[name] {
					res.Findings = append(res.Findings, core.Finding{Prop: "C20", Engine: "static-sites",
						Msg:  fmt.Sprintf("%s(%q) at %s:%d is not in the package's published MetricDefinitions", se.Sel.Name, name, strings.TrimPrefix(pos.Filename, repo+"/"), pos.Line),
						SigS: "C20|static|" + name})
				}
				return true
			})
		}
	}
}

package main

import (
	"fmt"
	"time"

	"verif/harness/core"
	"verif/simdisk"
)

func init() { engines["C10"] = func() *ShardResult { return runFault("C10") } }

// runFault enumerates workloads x failing I/O step x failure kind. For C10 every violation counts (one that the
// oracle attributes to another property is still an I/O failure handled wrongly); for C13 only the clauses about
// segment IDs and files are reported.
func runFault(prop string) *ShardResult {
	res := newResult()
	thorough := *fTier == "thorough"
	// workloads are enumerated length by length (all of length 1, then 2, ...), so a deadline cuts the longest ones
	maxLen := 4
	if thorough {
		maxLen = 5
	}
	deadline := time.Now().Add(*fBudget)
	cfgs := []core.Config{{SegSize: 128}, {SegSize: 64}, {SegSize: 4096}}
	res.Bounds["workload_len"] = maxLen
	res.Bounds["configs"] = cfgs
	res.Bounds["fault_kinds"] = []string{"clean", "after-effect", "short-write", "short-write reported as io.EOF"}
	res.Bounds["fault_duration"] = []string{"transient", "persistent (same kind of step)", "every step of any kind until the call returns", "transient with errno EINTR (clean and after-effect flavours)"}
	alpha := func(m *core.Model) []core.Op {
		ops := appendOps(m, [][]int{{4}, {4, 4}})
		if m.Last > 0 {
			ops = append(ops, core.Op{K: "D", Min: m.First, Max: m.First}, core.Op{K: "D", Min: m.Last, Max: m.Last})
			if m.Last > m.First {
				ops = append(ops, core.Op{K: "D", Min: m.First + 1, Max: m.Last})
			}
		}
		ops = append(ops, core.Op{K: "S", Key: "k1", Val: []byte("v")})
		if _, ok := m.Stable["k1"]; ok {
			ops = append(ops, core.Op{K: "S", Key: "k1", Nil: true}) // clearing a key that holds a value
		}
		if m.Last > 0 {
			// a clean Close followed by an Open in which a step may fail (listing, metadata load, reads of recovery)
			ops = append(ops, core.Op{K: "R"})
		}
		return ops
	}
	cont := faultCont
	_ = func(m *core.Model, failed *core.Op) []core.Op {
		var ops []core.Op
		if failed != nil {
			ops = append(ops, *failed) // retry the call that failed
		}
		next := m.Last + 1
		if m.Last == 0 {
			next = 1
		}
		ops = append(ops, core.Op{K: "A", Idx: next, Sizes: []int{12}, Gen: 50})
		ops = append(ops, core.Op{K: "S", Key: "k2", Val: []byte("w")})
		return ops
	}
	add := func(msg string, cfg core.Config, ops []core.Op, fp *core.FaultPlan) {
		if len(res.Findings) >= 40 {
			return
		}
		f := core.Finding{Prop: prop, Engine: "fault", Msg: msg, Cfg: cfg, Ops: ops, Extra: map[string]interface{}{"fault": fp, "fault_desc": fp.String()}}
		f.SigS = fmt.Sprintf("%s|fault|seg=%d|%s|%s|%s", prop, cfg.SegSize, core.OpsString(ops), fp.String(), firstLine(msg))
		res.Findings = append(res.Findings, f)
	}
	n := 0
	outcomes := map[string]bool{}
	target := 0
	runCfg := func(cfg core.Config) {
		var rec func(cur []core.Op, m *core.Model)
		rec = func(cur []core.Op, m *core.Model) {
			if len(cur) > 0 && len(cur) == target {
				// fault-free dry run sizes the enumeration
				dry := core.RunFault(cfg, cur, cont, nil)
				for _, v := range dry.Viol {
					if prop == "C10" || v.Prop == prop {
						add("[no fault injected] "+v.Msg, cfg, cur, &core.FaultPlan{At: -1})
					}
				}
				for at := 0; at < dry.FaultOps; at++ {
					for _, kind := range []simdisk.FaultKind{simdisk.FaultClean, simdisk.FaultAfter, simdisk.FaultShort, simdisk.FaultShortEOF} {
						for scope := 0; scope < 4; scope++ {
							pers := scope == 1
							// scope 3: one failing step whose error is EINTR (a call interrupted by a signal)
							if scope == 3 && kind != simdisk.FaultClean && kind != simdisk.FaultAfter {
								continue
							}
							n++
							if *fNShards > 1 && n%*fNShards != *fShard {
								continue
							}
							if time.Now().After(deadline) {
								res.Exhaustive = false
								return
							}
							fp := &core.FaultPlan{At: at, Kind: kind, Persistent: pers, UntilReturn: scope == 2}
							if scope == 3 {
								fp.Errno = "EINTR"
							}
							if kind == simdisk.FaultShortEOF && scope != 0 {
								continue
							}
							r := core.RunFault(cfg, cur, cont, fp)
							res.Counts["evaluations"]++
							res.Counts["transitions"]++
							res.Counts["traces_validated"]++
							if r.Failed > 0 {
								res.Counts["distinct_nontrivial"]++
							}
							res.Counts["crash_images_after_faulted_runs"] += int64(r.CrashImages)
							outcomes[fmt.Sprintf("%s|%s", r.HitOp, r.Outcome)] = true
							for _, v := range r.Viol {
								if prop == "C10" || v.Prop == prop {
									add(v.Msg, cfg, cur, fp)
								}
							}
							if r.Failed > 0 {
								// second continuation: carry on without retrying the call that failed
								r2 := core.RunFault(cfg, cur, faultContNoRetry, fp)
								res.Counts["evaluations"]++
								res.Counts["transitions"]++
								res.Counts["traces_validated"]++
								res.Counts["distinct_nontrivial"]++
								outcomes[fmt.Sprintf("noretry|%s|%s", r2.HitOp, r2.Outcome)] = true
								for _, v := range r2.Viol {
									if prop == "C10" || v.Prop == prop {
										add("[continuation without retry] "+v.Msg, cfg, cur, fp)
									}
								}
							}
							if len(res.Samples) < 3 && r.Failed > 1 {
								res.Samples = append(res.Samples, map[string]interface{}{"config": cfg, "ops": core.OpsString(cur), "fault": fp.String(), "failed_step": r.HitOp, "outcome": r.Outcome})
							}
						}
					}
				}
			}
			if len(cur) >= target || !res.Exhaustive {
				return
			}
			for _, o := range alpha(m) {
				nm := m.Clone()
				if core.ApplyModel(nm, o) {
					continue
				}
				rec(append(append([]core.Op{}, cur...), o), nm)
			}
		}
		rec(nil, core.NewModel())
	}
	// batches larger than the writer's 64 KiB buffer (the buffer is grown or flushed in the middle of a batch):
	// as the first batch of a segment and after a small committed one. Few workloads: they go first.
	{
		alpha0 := alpha
		alpha = func(m *core.Model) []core.Op {
			switch m.Last {
			case 0:
				return []core.Op{{K: "A", Idx: 1, Sizes: []int{40000, 40000}}, {K: "A", Idx: 1, Sizes: []int{8}}}
			case 1:
				return []core.Op{{K: "A", Idx: 2, Sizes: []int{40000, 40000}, Gen: 1}}
			}
			return nil
		}
		for target = 1; target <= 2; target++ {
			runCfg(core.Config{SegSize: 1 << 20})
		}
		res.Bounds["large_batch_workloads"] = "A(1,[40000,40000]); A(1,[8]) A(2,[40000,40000]) on a 1 MiB segment"
		alpha = alpha0
	}
	for target = 1; target <= maxLen && res.Exhaustive; target++ {
		for _, cfg := range cfgs {
			runCfg(cfg)
		}
		if res.Exhaustive {
			res.Mins["workload_lengths_completed"] = int64(target)
		}
	}
	for o := range outcomes {
		res.Sets["states"] = append(res.Sets["states"], o)
	}
	return res
}

// faultCont is the continuation after the workload: retry the call that
// failed, one more append, one stable write.
func faultCont(m *core.Model, failed *core.Op) []core.Op {
	var ops []core.Op
	if failed != nil {
		ops = append(ops, *failed)
	}
	next := m.Last + 1
	if m.Last == 0 {
		next = 1
	}
	ops = append(ops, core.Op{K: "A", Idx: next, Sizes: []int{12}, Gen: 50})
	ops = append(ops, core.Op{K: "S", Key: "k2", Val: []byte("w")})
	return ops
}

// faultContNoRetry: carry on with new work, never re-issuing the call that failed.
func faultContNoRetry(m *core.Model, failed *core.Op) []core.Op {
	next := m.Last + 1
	if m.Last == 0 {
		next = 1
	}
	// exactly one append: recovery verifies only the last commit of the tail, so a
	// second append would hide a bad CRC in the first
	return []core.Op{
		{K: "A", Idx: next, Sizes: []int{12}, Gen: 60},
		{K: "S", Key: "k2", Val: []byte("w")},
	}
}

package main

import (
	"bytes"
	"encoding/json"
	"fmt"
	"os"
	"os/exec"
	"path/filepath"
	"strings"

	"github.com/hashicorp/raft"
	wal "github.com/hashicorp/raft-wal"

	"verif/harness/core"
)

func init() { engines["C08HELD"] = runHeldChild }

// heldValueCases (C08, real filesystem + real bbolt): a value returned by Get belongs to the caller. For every
// value size of the menu and every sequence of up to three later calls, the bytes returned by an earlier Get
// must still be what they were when it returned. The cases run in a child process: an implementation that
// hands out memory of the store's file mapping can make the read itself fault.
func heldValueCases(res *ShardResult) {
	out := filepath.Join(os.TempDir(), fmt.Sprintf("verif-held-%d.json", os.Getpid()))
	defer os.Remove(out)
	cmd := exec.Command(os.Args[0], "-prop", "C08HELD", "-out", out)
	b, err := cmd.CombinedOutput()
	var child ShardResult
	if raw, e := os.ReadFile(out); e == nil {
		json.Unmarshal(raw, &child)
	}
	if err != nil && !child.Done {
		msg := string(b)
		if i := strings.Index(msg, "goroutine "); i > 0 {
			msg = msg[:i]
		}
		if len(msg) > 800 {
			msg = msg[:800]
		}
		res.Findings = append(res.Findings, core.Finding{Prop: "C08", Engine: "held", SigS: "C08|held|crash",
			Msg: fmt.Sprintf("real fs + bbolt: the process died while reading bytes that an earlier Get had returned (%v): the returned slice is not the caller's own memory\n%s", err, msg)})
		return
	}
	res.merge(&child, "held_")
}

func runHeldChild() *ShardResult {
	res := newResult()
	add := func(sig, msg string) {
		if len(res.Findings) < 20 {
			res.Findings = append(res.Findings, core.Finding{Prop: "C08", Engine: "held", Msg: msg, SigS: "C08|held|" + sig})
		}
	}
	big := func(n int, seed byte) []byte {
		b := make([]byte, n)
		for i := range b {
			b[i] = seed + byte(i*7)
		}
		return b
	}
	type step struct {
		name string
		f    func(w *wal.WAL, next *uint64) error
	}
	steps := []step{
		{"Set(k2, 2000 bytes)", func(w *wal.WAL, _ *uint64) error { return w.Set([]byte("k2"), big(2000, 9)) }},
		{"Set(k1, other value of the same length)", nil}, // filled per size below
		{"SetUint64(k3)", func(w *wal.WAL, _ *uint64) error { return w.SetUint64([]byte("k3"), 77) }},
		{"StoreLogs filling a segment (rotation commits metadata)", func(w *wal.WAL, next *uint64) error {
			var ls []*raft.Log
			for i := 0; i < 4; i++ {
				ls = append(ls, core.MkLog(*next, 0, 4))
				*next++
			}
			return w.StoreLogs(ls)
		}},
		{"Set(k1, nil)", func(w *wal.WAL, _ *uint64) error { return w.Set([]byte("k1"), nil) }},
	}
	// the caller's buffer belongs to the caller as well: reusing it for the next Set must store the new bytes
	reuse := func(name string, f func(w *wal.WAL) (want string, err error)) {
		res.Counts["evaluations"]++
		res.Counts["reused_buffer_cases"]++
		dir, err := os.MkdirTemp(core.ScratchRoot(), "verif-held-")
		if err != nil {
			return
		}
		defer os.RemoveAll(dir)
		w, err := wal.Open(dir, wal.WithSegmentSize(128))
		if err != nil {
			return
		}
		want, err := f(w)
		if err != nil {
			w.Close()
			return
		}
		got, err := w.Get([]byte("k1"))
		if err != nil || string(got) != want {
			add("reuse|"+name, fmt.Sprintf("real fs + bbolt: %s: Get(k1) = %q (err %v), want %q", name, got, err, want))
		}
		w.Close()
		w2, err := wal.Open(dir, wal.WithSegmentSize(128))
		if err != nil {
			return
		}
		defer w2.Close()
		got, err = w2.Get([]byte("k1"))
		if err != nil || string(got) != want {
			add("reuse-reopen|"+name, fmt.Sprintf("real fs + bbolt: %s, after a clean reopen: Get(k1) = %q (err %v), want %q", name, got, err, want))
		}
	}
	reuse("Set(k1, buf), overwrite buf in place, Set(k1, buf)", func(w *wal.WAL) (string, error) {
		buf := []byte("server-1")
		if err := w.Set([]byte("k1"), buf); err != nil {
			return "", err
		}
		copy(buf, "server-2")
		return "server-2", w.Set([]byte("k1"), buf)
	})
	reuse("Set(k1, buf), overwrite buf in place, Set(k1, fresh slice with the new bytes)", func(w *wal.WAL) (string, error) {
		buf := []byte("aaaa")
		if err := w.Set([]byte("k1"), buf); err != nil {
			return "", err
		}
		copy(buf, "bbbb")
		return "bbbb", w.Set([]byte("k1"), []byte("bbbb"))
	})
	reuse("Set(k1, x), Set(k1, x) with the same bytes, Set(k1, y), Set(k1, x)", func(w *wal.WAL) (string, error) {
		for _, v := range []string{"x", "x", "y"} {
			if err := w.Set([]byte("k1"), []byte(v)); err != nil {
				return "", err
			}
		}
		return "x", w.Set([]byte("k1"), []byte("x"))
	})
	reuse("SetUint64(k1, 7) twice then Set(k1, buf) with a key slice that is overwritten afterwards", func(w *wal.WAL) (string, error) {
		key := []byte("k1")
		w.SetUint64(key, 7)
		w.SetUint64(key, 7)
		err := w.Set(key, []byte("final"))
		copy(key, "zz")
		return "final", err
	})
	sizes := []int{3, 900, 1500, 5000, 20000}
	res.Bounds["held_value_sizes"] = sizes
	res.Bounds["held_followup_depth"] = 3
	var names []string
	for _, s := range steps {
		names = append(names, s.name)
	}
	res.Bounds["held_followup_calls"] = names
	for _, sz := range sizes {
		orig := big(sz, 1)
		var rec func(seq []int)
		run := func(seq []int) {
			res.Counts["evaluations"]++
			res.Counts["held_value_cases"]++
			res.Counts["traces_validated"]++
			res.Counts["transitions"] += int64(len(seq))
			dir, err := os.MkdirTemp(core.ScratchRoot(), "verif-held-")
			if err != nil {
				return
			}
			defer os.RemoveAll(dir)
			w, err := wal.Open(dir, wal.WithSegmentSize(128))
			if err != nil {
				return
			}
			defer w.Close()
			if err := w.Set([]byte("k1"), orig); err != nil {
				return
			}
			held, err := w.Get([]byte("k1"))
			if err != nil || !bytes.Equal(held, orig) {
				add("get", fmt.Sprintf("real fs + bbolt: Get(k1) right after Set of %d bytes returned %d bytes, err %v", sz, len(held), err))
				return
			}
			next := uint64(1)
			var done []string
			for _, si := range seq {
				st := steps[si]
				f := st.f
				if f == nil {
					f = func(w *wal.WAL, _ *uint64) error { return w.Set([]byte("k1"), big(sz, 101)) }
				}
				if err := f(w, &next); err != nil {
					return
				}
				done = append(done, st.name)
				if !bytes.Equal(held, orig) {
					at := 0
					for at < len(held) && held[at] == orig[at] {
						at++
					}
					add(fmt.Sprintf("size=%d|%s", sz, strings.Join(done, ", ")), fmt.Sprintf("real fs + bbolt: the %d bytes returned by Get(k1) changed under the caller (first at byte %d) after later calls [%s]", sz, at, strings.Join(done, ", ")))
					return
				}
			}
		}
		rec = func(seq []int) {
			if len(seq) > 0 {
				run(seq)
			}
			if len(seq) == 3 {
				return
			}
			for i := range steps {
				rec(append(append([]int{}, seq...), i))
			}
		}
		rec(nil)
	}
	return res
}

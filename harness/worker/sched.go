package main

import (
	"fmt"
	"os"
	"os/exec"
	"sort"
	"strings"
	"time"

	"verif/harness/core"
	"verif/shim/vsched"
)

func init() {
	engines["C06"] = func() *ShardResult { return runSched("C06") }
	engines["C14"] = func() *ShardResult {
		total := *fBudget
		*fBudget = total * 5 / 6
		res := newResult()
		res.merge(runSched("C14"), "")
		*fBudget = total / 6
		res.merge(runSeq("C14"), "seq_")
		*fBudget = total
		return res
	}
	engines["RACE"] = runRaceFree
}

func a(idx uint64, gen int, sizes ...int) core.Op {
	return core.Op{K: "A", Idx: idx, Sizes: sizes, Gen: gen}
}

func c06Scenarios() []*core.Scenario {
	seg := core.Config{SegSize: 128}
	return []*core.Scenario{
		{Name: "S1 sealing append + rotation || GetLog(new), LastIndex", Cfg: seg,
			Setup:   []core.Op{a(1, 0, 4), a(2, 0, 4)},
			Threads: []core.ThreadSpec{{Name: "writer", Ops: []core.Op{a(3, 0, 4), a(4, 0, 4)}}, {Name: "reader", Ops: []core.Op{{K: "GL", Idx: 3}, {K: "LI"}, {K: "GL", Idx: 4}}}}},
		{Name: "S2 head truncation deleting a segment || GetLog(deleted), GetLog(kept), FirstIndex", Cfg: seg,
			Setup:   []core.Op{a(1, 0, 4), a(2, 0, 4), a(3, 0, 4), a(4, 0, 4)},
			Threads: []core.ThreadSpec{{Name: "writer", Ops: []core.Op{{K: "D", Min: 1, Max: 3}}}, {Name: "reader", Ops: []core.Op{{K: "GL", Idx: 2}, {K: "FI"}, {K: "GL", Idx: 4}}}}},
		{Name: "S3 tail truncation then re-append of different content || GetLog(that index), LastIndex", Cfg: seg,
			Setup:   []core.Op{a(1, 0, 4), a(2, 0, 4)},
			Threads: []core.ThreadSpec{{Name: "writer", Ops: []core.Op{{K: "D", Min: 2, Max: 2}, a(2, 1, 12)}}, {Name: "reader", Ops: []core.Op{{K: "GL", Idx: 2}, {K: "LI"}, {K: "GL", Idx: 2}}}}},
		{Name: "S4 empty log, first append at index 100 (base-index reset) || FirstIndex, LastIndex, GetLog(100)", Cfg: seg,
			Threads: []core.ThreadSpec{{Name: "writer", Ops: []core.Op{a(100, 0, 4)}}, {Name: "reader", Ops: []core.Op{{K: "FI"}, {K: "GL", Idx: 100}, {K: "LI"}}}}},
		{Name: "S5 two readers || sealing append", Cfg: seg,
			Setup: []core.Op{a(1, 0, 4), a(2, 0, 4)},
			Threads: []core.ThreadSpec{{Name: "writer", Ops: []core.Op{a(3, 0, 4)}}, {Name: "reader1", Ops: []core.Op{{K: "GL", Idx: 3}}},
				{Name: "reader2", Ops: []core.Op{{K: "LI"}, {K: "GL", Idx: 1}}}}},
		{Name: "S7 sealing append then tail truncation and re-append while the rotation is pending || FirstIndex, GetLog(kept), LastIndex", Cfg: seg,
			Setup:   []core.Op{a(1, 0, 4), a(2, 0, 4)},
			Threads: []core.ThreadSpec{{Name: "writer", Ops: []core.Op{a(3, 0, 4), {K: "D", Min: 3, Max: 3}, a(3, 1, 12)}}, {Name: "reader", Ops: []core.Op{{K: "FI"}, {K: "GL", Idx: 1}, {K: "LI"}}}}},
		{Name: "S8 sealing append then head truncation while the rotation is pending || GetLog(kept), FirstIndex", Cfg: seg,
			Setup:   []core.Op{a(1, 0, 4), a(2, 0, 4)},
			Threads: []core.ThreadSpec{{Name: "writer", Ops: []core.Op{a(3, 0, 4), {K: "D", Min: 1, Max: 1}}}, {Name: "reader", Ops: []core.Op{{K: "GL", Idx: 3}, {K: "FI"}}}}},
		{Name: "S9 head truncation ending one below a sealed segment's last index || GetLog(that index), FirstIndex, GetLog(next segment)", Cfg: seg,
			Setup:   []core.Op{a(1, 0, 4), a(2, 0, 4), a(3, 0, 4), a(4, 0, 4)},
			Threads: []core.ThreadSpec{{Name: "writer", Ops: []core.Op{{K: "D", Min: 1, Max: 2}}}, {Name: "reader", Ops: []core.Op{{K: "GL", Idx: 3}, {K: "FI"}, {K: "GL", Idx: 4}}}}},
		{Name: "S10 two readers of entries larger than the pooled read buffer || append", Cfg: core.Config{SegSize: 1 << 20},
			Setup: []core.Op{a(1, 0, 70000), a(2, 0, 66000), a(3, 0, 12)},
			Threads: []core.ThreadSpec{{Name: "reader1", Ops: []core.Op{{K: "GL", Idx: 1}}}, {Name: "reader2", Ops: []core.Op{{K: "GL", Idx: 2}, {K: "GL", Idx: 3}}},
				{Name: "writer", Ops: []core.Op{a(4, 0, 4)}}}},
		{Name: "S11 after a reopen (sealed segment served by its on-disk index): GetLog(1) || GetLog(2), GetLog(3)", Cfg: seg,
			Setup:   []core.Op{a(1, 0, 4), a(2, 0, 4), a(3, 0, 4), a(4, 0, 4), {K: "R"}},
			Threads: []core.ThreadSpec{{Name: "reader1", Ops: []core.Op{{K: "GL", Idx: 1}}}, {Name: "reader2", Ops: []core.Op{{K: "GL", Idx: 2}, {K: "GL", Idx: 3}}}}},
		{Name: "S12 two state transitions, the second removing the whole tail segment || GetLog(kept entries of an older sealed segment)", Cfg: seg,
			Setup:   []core.Op{a(1, 0, 4), a(2, 0, 4), a(3, 0, 4), a(4, 0, 4), a(5, 0, 4)},
			Threads: []core.ThreadSpec{{Name: "writer", Ops: []core.Op{{K: "D", Min: 1, Max: 1}, {K: "D", Min: 4, Max: 5}}}, {Name: "reader", Ops: []core.Op{{K: "GL", Idx: 2}, {K: "GL", Idx: 3}}}}},
		{Name: "S6 head truncation inside the tail || GetLog(deleted), FirstIndex", Cfg: core.Config{SegSize: 4096},
			Setup:   []core.Op{a(1, 0, 4), a(2, 0, 4), a(3, 0, 4)},
			Threads: []core.ThreadSpec{{Name: "writer", Ops: []core.Op{{K: "D", Min: 1, Max: 2}, a(4, 0, 4)}}, {Name: "reader", Ops: []core.Op{{K: "GL", Idx: 1}, {K: "FI"}, {K: "GL", Idx: 4}}}}},
	}
}

// c13Scenarios: readers pinning an old state delay, but do not prevent, the
// removal of truncated segments' files.
func c13Scenarios() []*core.Scenario {
	seg := core.Config{SegSize: 128}
	six := []core.Op{a(1, 0, 4), a(2, 0, 4), a(3, 0, 4), a(4, 0, 4), a(5, 0, 4), a(6, 0, 4), a(7, 0, 4)}
	return []*core.Scenario{
		{Name: "head truncation deleting two segments || reader inside the deleted range and in the kept one", Cfg: seg, Prop: "C13", Setup: six,
			Threads: []core.ThreadSpec{{Name: "writer", Ops: []core.Op{{K: "D", Min: 1, Max: 6}}}, {Name: "reader", Ops: []core.Op{{K: "GL", Idx: 2}, {K: "GL", Idx: 7}}}}},
		{Name: "tail truncation deleting the tail and a sealed segment, then append || reader", Cfg: seg, Prop: "C13", Setup: six,
			Threads: []core.ThreadSpec{{Name: "writer", Ops: []core.Op{{K: "D", Min: 3, Max: 7}, a(3, 1, 4)}}, {Name: "reader", Ops: []core.Op{{K: "GL", Idx: 5}, {K: "GL", Idx: 1}}}}},
		{Name: "two readers pinning the state across a head truncation", Cfg: seg, Prop: "C13", Setup: six,
			Threads: []core.ThreadSpec{{Name: "writer", Ops: []core.Op{{K: "D", Min: 1, Max: 3}}}, {Name: "reader1", Ops: []core.Op{{K: "GL", Idx: 1}}}, {Name: "reader2", Ops: []core.Op{{K: "GL", Idx: 3}, {K: "FI"}}}}},
		{Name: "head truncation deleting two segments, then Close || reader pinning the old state", Cfg: seg, Prop: "C13", Setup: six, Closer: true,
			Threads: []core.ThreadSpec{{Name: "writer", Ops: []core.Op{{K: "D", Min: 1, Max: 6}, {K: "C"}}}, {Name: "reader", Ops: []core.Op{{K: "GL", Idx: 2}}}}},
	}
}

// c12Scenarios: concurrent reads of entries larger than the pooled 64 KiB read
// buffer (two disk reads per entry; the pool is a deterministic LIFO).
func c12Scenarios() []*core.Scenario {
	seg := core.Config{SegSize: 1 << 20}
	setup := []core.Op{a(1, 0, 70000), a(2, 0, 66000), a(3, 0, 12)}
	return []*core.Scenario{
		{Name: "GetLog(70000-byte entry) || GetLog(66000-byte entry)", Cfg: seg, Prop: "C12", Setup: setup,
			Threads: []core.ThreadSpec{{Name: "reader1", Ops: []core.Op{{K: "GL", Idx: 1}}}, {Name: "reader2", Ops: []core.Op{{K: "GL", Idx: 2}}}}},
		{Name: "after one GetLog whose Decode failed: GetLog(1) || GetLog(2), GetLog(3) (entries of 100, 120, 140 bytes)", Cfg: seg, Prop: "C12", FailDecodeOnce: 2,
			Setup:   []core.Op{a(1, 0, 100), a(2, 0, 120), a(3, 0, 140)},
			Threads: []core.ThreadSpec{{Name: "reader1", Ops: []core.Op{{K: "GL", Idx: 1}}}, {Name: "reader2", Ops: []core.Op{{K: "GL", Idx: 2}, {K: "GL", Idx: 3}}}}},
		{Name: "GetLog(70000-byte entry) || GetLog(small), GetLog(small)", Cfg: seg, Prop: "C12", Setup: setup,
			Threads: []core.ThreadSpec{{Name: "reader1", Ops: []core.Op{{K: "GL", Idx: 1}}}, {Name: "reader2", Ops: []core.Op{{K: "GL", Idx: 3}, {K: "GL", Idx: 3}}}}},
	}
}

// c08Scenarios: stable operations concurrent with log mutations.
func c08Scenarios() []*core.Scenario {
	seg := core.Config{SegSize: 128}
	return []*core.Scenario{
		{Name: "Set, Get, SetUint64, GetUint64 || sealing append + rotation, head truncation", Cfg: seg, Prop: "C08", Setup: []core.Op{a(1, 0, 4), a(2, 0, 4)},
			Threads: []core.ThreadSpec{{Name: "stable", Ops: []core.Op{{K: "S", Key: "k1", Val: []byte("v1")}, {K: "G", Key: "k1"}, {K: "U", Key: "k2", U64: 9}, {K: "GU", Key: "k2"}}},
				{Name: "writer", Ops: []core.Op{a(3, 0, 4), {K: "D", Min: 1, Max: 1}}}}},
		{Name: "SetUint64(k1), GetUint64(k1) || SetUint64(k2), GetUint64(k2) || sealing append", Cfg: seg, Prop: "C08", Setup: []core.Op{a(1, 0, 4), a(2, 0, 4)},
			Threads: []core.ThreadSpec{{Name: "stable1", Ops: []core.Op{{K: "U", Key: "k1", U64: 111}, {K: "GU", Key: "k1"}}},
				{Name: "stable2", Ops: []core.Op{{K: "U", Key: "k2", U64: 222}, {K: "GU", Key: "k2"}}},
				{Name: "writer", Ops: []core.Op{a(3, 0, 4)}}}},
		{Name: "Set(k1), Get(k1) || Set(k1 other value), Get(k2)", Cfg: seg, Prop: "C08",
			Threads: []core.ThreadSpec{{Name: "stable1", Ops: []core.Op{{K: "S", Key: "k1", Val: []byte("aaaa")}, {K: "G", Key: "k1"}}},
				{Name: "stable2", Ops: []core.Op{{K: "S", Key: "k2", Val: []byte("bbbbbbbb")}, {K: "G", Key: "k2"}}}}},
		{Name: "Get(k1), Get(k1) || Set(k1), Get(k1), Set(k1 again), Get(k1)", Cfg: seg, Prop: "C08", Setup: []core.Op{{K: "S", Key: "k1", Val: []byte("old")}},
			Threads: []core.ThreadSpec{{Name: "getter", Ops: []core.Op{{K: "G", Key: "k1"}, {K: "G", Key: "k1"}}},
				{Name: "setter", Ops: []core.Op{{K: "S", Key: "k1", Val: []byte("new1")}, {K: "G", Key: "k1"}, {K: "S", Key: "k1", Val: []byte("new22")}, {K: "G", Key: "k1"}}}}},
		{Name: "GetUint64(k2) || SetUint64(k2), GetUint64(k2) || GetUint64(k2)", Cfg: seg, Prop: "C08",
			Threads: []core.ThreadSpec{{Name: "getter1", Ops: []core.Op{{K: "GU", Key: "k2"}, {K: "GU", Key: "k2"}}},
				{Name: "setter", Ops: []core.Op{{K: "U", Key: "k2", U64: 5}, {K: "GU", Key: "k2"}}}, {Name: "getter2", Ops: []core.Op{{K: "GU", Key: "k2"}}}}},
		{Name: "Set(nil), Get || tail truncation and re-append || reader", Cfg: seg, Prop: "C08", Setup: []core.Op{a(1, 0, 4), a(2, 0, 4), {K: "S", Key: "k1", Val: []byte("old")}},
			Threads: []core.ThreadSpec{{Name: "stable", Ops: []core.Op{{K: "S", Key: "k1", Nil: true}, {K: "G", Key: "k1"}}},
				{Name: "writer", Ops: []core.Op{{K: "D", Min: 2, Max: 2}, a(2, 1, 12)}}, {Name: "reader", Ops: []core.Op{{K: "GL", Idx: 2}, {K: "LI"}}}}},
	}
}

func c14Scenarios() []*core.Scenario {
	seg := core.Config{SegSize: 128}
	setup := []core.Op{a(1, 0, 4), a(2, 0, 4)}
	mk := func(name string, others ...core.ThreadSpec) *core.Scenario {
		ts := append([]core.ThreadSpec{}, others...)
		ts = append(ts, core.ThreadSpec{Name: "closer", Ops: []core.Op{{K: "C"}}})
		return &core.Scenario{Name: name, Cfg: seg, Setup: setup, Threads: ts, Closer: true}
	}
	return []*core.Scenario{
		mk("Close || StoreLogs", core.ThreadSpec{Name: "writer", Ops: []core.Op{a(3, 0, 4)}}),
		mk("Close || sealing StoreLogs, StoreLogs (rotation pending)", core.ThreadSpec{Name: "writer", Ops: []core.Op{a(3, 0, 4), a(4, 0, 4)}}),
		mk("Close || DeleteRange head", core.ThreadSpec{Name: "writer", Ops: []core.Op{{K: "D", Min: 1, Max: 1}}}),
		mk("Close || DeleteRange tail", core.ThreadSpec{Name: "writer", Ops: []core.Op{{K: "D", Min: 2, Max: 2}}}),
		mk("Close || GetLog, FirstIndex, LastIndex", core.ThreadSpec{Name: "reader", Ops: []core.Op{{K: "GL", Idx: 1}, {K: "FI"}, {K: "LI"}}}),
		mk("Close || Set, Get, GetUint64", core.ThreadSpec{Name: "stable", Ops: []core.Op{{K: "S", Key: "k1", Val: []byte("v")}, {K: "G", Key: "k1"}, {K: "GU", Key: "k2"}}}),
		mk("Close || Close", core.ThreadSpec{Name: "closer2", Ops: []core.Op{{K: "C"}}}),
		mk("Close || Close || StoreLogs (both Close calls while a write is in flight)", core.ThreadSpec{Name: "closer2", Ops: []core.Op{{K: "C"}}}, core.ThreadSpec{Name: "writer", Ops: []core.Op{a(3, 0, 4)}}),
		func() *core.Scenario {
			s := mk("Close (metadata store's Close fails) || StoreLogs", core.ThreadSpec{Name: "writer", Ops: []core.Op{a(3, 0, 4)}})
			s.MetaCloseFails = true
			return s
		}(),
		mk("Close || StoreLogs || DeleteRange head (log compaction on another goroutine)", core.ThreadSpec{Name: "writer", Ops: []core.Op{a(3, 0, 4)}}, core.ThreadSpec{Name: "compactor", Ops: []core.Op{{K: "D", Min: 1, Max: 1}}}),
		mk("Close || StoreLogs || GetLog, LastIndex", core.ThreadSpec{Name: "writer", Ops: []core.Op{a(3, 0, 4)}}, core.ThreadSpec{Name: "reader", Ops: []core.Op{{K: "GL", Idx: 2}, {K: "LI"}}}),
	}
}

func runSched(prop string) *ShardResult {
	res := newResult()
	thorough := *fTier == "thorough"
	bound := 3
	if thorough {
		bound = 4
	}
	var scs []*core.Scenario
	switch prop {
	case "C06":
		scs = c06Scenarios()
	case "C13":
		scs = c13Scenarios()
	case "C08":
		scs = c08Scenarios()
	case "C12":
		scs = c12Scenarios()
	case "C15":
		// the same large-entry readers: an entry above the pooled buffer size must read back whole
		// whatever other readers do meanwhile
		scs = c12Scenarios()
		for _, s := range scs {
			s.Prop = "C15"
		}
	default:
		scs = c14Scenarios()
	}
	res.Bounds["preemption_bounds"] = []int{bound - 1, bound}
	var names []string
	for _, s := range scs {
		names = append(names, s.Name)
	}
	res.Bounds["scenarios"] = names
	start := time.Now()
	completed := bound
	sizeAtLower := make([]int, len(scs))
	// iterative context bounding: everything with bound-1 preemptions first (must complete), then bound
	for pass, b := range []int{bound - 1, bound} {
		order := make([]int, len(scs))
		for i := range order {
			order[i] = i
		}
		if pass == 1 {
			// cheapest scenarios first (by their size at the lower bound), so that as many as possible complete
			sort.SliceStable(order, func(a, b int) bool { return sizeAtLower[order[a]] < sizeAtLower[order[b]] })
		}
		for _, si := range order {
			sc := scs[si]
			st := &core.ExploreStats{}
			// one deadline for the whole check: the lower bound runs first and completes in seconds,
			// the higher bound gets what is left, scenario by scenario
			deadline := start.Add(*fBudget)
			nf := 0
			var lastRec *core.ExecRecord
			x := &core.Explorer{Bound: b, Deadline: deadline, Shard: *fShard, NShards: *fNShards, Stats: st,
				Run: func(ch vsched.Chooser) *vsched.Result {
					r, rec := core.RunScenario(sc, ch, false)
					lastRec = rec
					return r
				},
				Stop: func() bool { return nf >= 6 },
			}
			x.Check = func(prefix []int, r *vsched.Result) {
				rec := lastRec
				vs := core.CheckExecution(sc, r, rec)
				out := core.HistoryString(rec)
				st.Outcomes[out]++
				if len(res.Samples) < 3 && len(prefix) >= 2 {
					res.Samples = append(res.Samples, map[string]interface{}{"scenario": sc.Name, "schedule": prefix, "history": out})
				}
				for _, v := range vs {
					nf++
					f := core.Finding{Prop: v.Prop, Msg: v.Msg, Engine: "sched", Cfg: sc.Cfg,
						Extra: map[string]interface{}{"scenario": sc, "schedule": append([]int(nil), prefix...), "history": out, "preemption_bound": b}}
					f.SigS = fmt.Sprintf("%s|sched|%s|%s", v.Prop, sc.Name, firstLine(v.Msg))
					res.Findings = append(res.Findings, f)
				}
			}
			x.Explore()
			if pass == 0 {
				sizeAtLower[si] = st.Executions
			}
			res.Counts["executions"] += int64(st.Executions)
			res.Counts["evaluations"] += int64(st.Executions)
			res.Counts["transitions"] += int64(st.Executions)
			res.Counts["traces_validated"] += int64(st.Executions)
			for o := range st.Outcomes {
				res.Sets["states"] = append(res.Sets["states"], fmt.Sprintf("s%d:%s", si, o))
				res.Sets["nontrivial"] = append(res.Sets["nontrivial"], fmt.Sprintf("s%d:%s", si, o))
			}
			res.hist(fmt.Sprintf("executions_per_scenario_bound%d", b), fmt.Sprintf("s%d", si+1), int64(st.Executions))
			for k, v := range st.Preempt {
				res.hist("executions_by_preemptions", fmt.Sprint(k), int64(v))
			}
			if int64(st.MaxChoices) > res.Maxes["max_choice_points"] {
				res.Maxes["max_choice_points"] = int64(st.MaxChoices)
			}
			if !st.Complete {
				res.Exhaustive = false
				if b-1 < completed {
					completed = b - 1
				}
				res.Notes = append(res.Notes, fmt.Sprintf("scenario %q not completed within its time share at preemption bound %d", sc.Name, b))
			}
		}
	}
	res.Mins["preemption_bound_completed_for_all_scenarios"] = int64(completed)
	if prop == "C06" && *fShard == 0 {
		// metric observations are made from reader and writer goroutines alike: names must not be built in shared memory
		goMetricsPass("C06", res)
	}
	if prop == "C06" && *fRaceBin != "" && *fShard == 0 {
		racePass(res)
	}
	return res
}

// racePass runs the free-running -race build of the same scenario bodies.
func racePass(res *ShardResult) {
	iters := 300
	if *fTier == "thorough" {
		iters = 3000
	}
	cmd := exec.Command(*fRaceBin, "-prop", "RACE", "-seed", fmt.Sprint(*fSeed), "-budget", fmt.Sprintf("%ds", iters))
	cmd.Env = append(os.Environ(), "GOMAXPROCS=8", "GORACE=halt_on_error=1 exitcode=66")
	out, err := cmd.CombinedOutput()
	res.Counts["race_pass_iterations"] = int64(iters * (len(c06Scenarios()) + len(c14Scenarios())))
	res.Notes = append(res.Notes, "free-running -race pass (non-exhaustive, separate from the exhaustive schedule exploration) executed")
	if err != nil {
		if strings.Contains(string(out), "DATA RACE") {
			msg := string(out)
			if i := strings.Index(msg, "WARNING: DATA RACE"); i >= 0 {
				msg = msg[i:]
			}
			if len(msg) > 3000 {
				msg = msg[:3000]
			}
			res.Findings = append(res.Findings, core.Finding{Prop: "C06", Engine: "race", Msg: "data race reported by the Go race detector in a free-running execution:\n" + msg, SigS: "C06|race|" + raceSite(msg)})
		} else {
			res.Findings = append(res.Findings, core.Finding{Prop: "INTERNAL", Engine: "race", Msg: fmt.Sprintf("race pass failed: %v\n%s", err, tailStr(string(out), 1500))})
		}
	}
}

func raceSite(msg string) string {
	for _, l := range strings.Split(msg, "\n") {
		l = strings.TrimSpace(l)
		if strings.HasPrefix(l, "/repo/") {
			return l
		}
	}
	return "unknown"
}

func tailStr(s string, n int) string {
	if len(s) > n {
		return s[len(s)-n:]
	}
	return s
}

// runRaceFree is the body of the -race binary: budget seconds is reused as the iteration count.
func runRaceFree() *ShardResult {
	res := newResult()
	iters := int(fBudget.Seconds())
	scs := append(c06Scenarios(), c14Scenarios()...)
	// at most `iters` rounds, and never longer than a third of what the exhaustive part was given
	stopAt := time.Now().Add(time.Duration(iters/10+20) * time.Second)
	for it := 0; it < iters && time.Now().Before(stopAt); it++ {
		for _, sc := range scs {
			if err := core.RunScenarioFree(sc, *fSeed+int64(it)); err != nil {
				res.Notes = append(res.Notes, err.Error())
			}
		}
	}
	res.Counts["evaluations"] = int64(iters * len(scs))
	return res
}

func firstLine(s string) string {
	for i := 0; i < len(s); i++ {
		if s[i] == '\n' {
			return s[:i]
		}
	}
	return s
}

package main

import (
	"bytes"
	"encoding/json"
	"fmt"
	"io"
	"os"
	"path/filepath"
	"sort"
	"strings"
	"time"

	"github.com/hashicorp/raft"
	wal "github.com/hashicorp/raft-wal"
	"github.com/hashicorp/raft-wal/types"
	"go.etcd.io/bbolt"

	"verif/fmtspec"
	"verif/harness/core"
	"verif/simdisk"
)

func init() {
	engines["C09FAULT"] = runFormatFault // development: the format-after-faults part alone
	engines["C09"] = func() *ShardResult {
		total := *fBudget
		*fBudget = total / 2
		res := runFormat()
		*fBudget = total / 4
		res.merge(runFormatCrash(), "crash_")
		res.merge(runFormatFault(), "fault_")
		*fBudget = total
		return res
	}
}

// runFormatFault: the format after I/O failures. The workloads, fault positions, flavours and continuations of
// the fault engine (C10) run with a final hook: after the fault is cleared and the directory has been reopened
// cleanly twice, the files are decoded independently and must hold exactly what the WAL shows (every commit
// frame's CRC covers the bytes since the previous one, sealed segments carry exactly one index frame at
// IndexStart, unsealed ones none). Only C09 clauses are reported.
func runFormatFault() *ShardResult {
	core.FaultFinalHook = func(s *core.Sys, shown *core.Model) []core.Violation {
		eo := &endOracle{model: shown, afterFaults: true, what: "after I/O failures, the fault cleared and two clean reopens: "}
		return eo.check(s)
	}
	defer func() { core.FaultFinalHook = nil }()
	res := runFault("C09")
	res.Bounds["oracle"] = "independent decode of every listed segment file after the final clean reopen"
	return res
}

// runFormatCrash: the format after a recovery. Every crash image of short workloads is recovered by Open, one
// more batch is appended and the WAL is closed; the files then have to be readable by the independent decoder
// (magic, header, frame chain, commit CRCs, index) and hold exactly what the recovered WAL shows.
func runFormatCrash() *ShardResult {
	res := newResult()
	cc := core.CrashCfg{ChunkCap: 1 << 10, Shard: *fShard, NShards: *fNShards, MaxFindings: 20, Depth: 1, ExpandPerClass: 3}
	if *fTier == "thorough" {
		cc.Depth, cc.ChunkCap, cc.ExpandPerClass = 2, 1<<14, 8
	}
	cc.WorkLen = func(l int) int { return wlen([]int{0, 3, 1}, l) }
	cc.Alpha = func(l int, m *core.Model) []core.Op {
		ops := appendOps(m, [][]int{{4}, {3, 6}, {20, 4}})
		return append(ops, delOps(m, true, true)...)
	}
	cc.LeafHook = formatLeafHook(res)
	cfgs := []core.Config{{SegSize: 128}, {SegSize: 64}, {SegSize: 4096}}
	res.Bounds["depth"] = cc.Depth
	res.Bounds["configs"] = cfgs
	start := time.Now()
	for ci, cfg := range cfgs {
		st := &core.CrashStats{}
		cc.Deadline = start.Add(*fBudget * time.Duration(ci+1) / time.Duration(len(cfgs)))
		e := core.NewCrashEngine(cc, cfg, st)
		e.Run()
		for _, f := range e.Findings {
			if f.Prop == "C09" {
				res.Findings = append(res.Findings, f)
			}
		}
		res.Counts["images_checked"] += int64(st.Images)
		res.Counts["recoveries_run"] += int64(st.Recoveries)
		res.Counts["transitions"] += int64(st.Images)
		res.Counts["evaluations"] += int64(st.Images)
		res.Counts["traces_validated"] += int64(st.Workloads + st.Recoveries)
		for h := range st.ImgHashes {
			res.Sets["states"] = append(res.Sets["states"], cfgName(cfg)+":"+h[:14])
		}
		if st.DeadlineHit || st.CappedPoints > 0 || st.LevelsDone < cc.Depth {
			res.Exhaustive = false
		}
	}
	return res
}

func formatLeafHook(res *ShardResult) func(st *simdisk.State, cfg core.Config, m *core.Model) []core.Violation {
	return func(st *simdisk.State, cfg core.Config, m *core.Model) []core.Violation {
		next := m.Last + 1
		if m.Last == 0 {
			next = 7
		}
		ops := []core.Op{{K: "A", Idx: next, Sizes: []int{5, 2}, Gen: 700}}
		eo := &endOracle{model: m.Clone(), n: 1, what: "after recovery of this image, one more batch and a clean Close: "}
		sr := core.RunSession(st, cfg, ops, core.SessionOpts{CmpProp: "C05", CloseAtEnd: true, AfterStep: eo.afterStep})
		if res != nil {
			res.Counts["segment_files_compared"] += int64(eo.checked)
		}
		var vs []core.Violation
		for _, v := range sr.Viol {
			if v.Prop == "C09" {
				vs = append(vs, v)
			}
		}
		return vs
	}
}

type segTrack struct {
	base, id uint64
	batches  []fmtspec.Batch
}

// formatOracle follows every step of a session and compares the raw bytes of
// every segment file with what the independent encoder produces.
type formatOracle struct {
	tracks  map[uint64]*segTrack
	prev    types.PersistentState
	model   *core.Model
	checked int
}

func newFormatOracle() *formatOracle {
	return &formatOracle{tracks: map[uint64]*segTrack{}, model: core.NewModel()}
}

func toSpecLog(l *raft.Log) fmtspec.Log {
	return fmtspec.Log{Index: l.Index, Term: l.Term, Type: uint8(l.Type), Data: l.Data, Ext: l.Extensions, At: l.AppendedAt}
}

func (fo *formatOracle) afterStep(i int, op core.Op, err error, s *core.Sys) []core.Violation {
	var vs []core.Violation
	bad := func(f string, a ...interface{}) {
		vs = append(vs, core.Violation{Prop: "C09", Msg: fmt.Sprintf("after step %d %s: ", i, op) + fmt.Sprintf(f, a...)})
	}
	cur, derr := core.DecodeMeta(s.MetaRaw())
	if derr != nil {
		bad("metadata record is not the documented JSON: %v", derr)
		return vs
	}
	// independent check that the record is JSON with exactly the documented field names
	var generic struct {
		NextSegmentID *uint64
		Segments      []map[string]json.RawMessage
	}
	if raw := s.MetaRaw(); raw != nil {
		if e := json.Unmarshal(raw, &generic); e != nil || generic.NextSegmentID == nil {
			bad("metadata record lacks NextSegmentID / is not a JSON object: %v", e)
		}
		for _, sg := range generic.Segments {
			for _, k := range []string{"ID", "BaseIndex", "MinIndex", "MaxIndex", "Codec", "IndexStart", "CreateTime", "SealTime"} {
				if _, ok := sg[k]; !ok {
					bad("segment record lacks documented field %s", k)
				}
			}
		}
	}
	wasSealed := map[uint64]bool{}
	for _, sg := range fo.prev.Segments {
		wasSealed[sg.ID] = !sg.SealTime.IsZero()
	}
	for _, sg := range cur.Segments {
		if fo.tracks[sg.ID] == nil {
			fo.tracks[sg.ID] = &segTrack{base: sg.BaseIndex, id: sg.ID}
		}
	}
	if err == nil {
		nm := fo.model.Clone()
		rejected := core.ApplyModel(nm, op)
		if !rejected {
			fo.model = nm
		}
		switch op.K {
		case "A":
			if !rejected {
				logs := op.Logs()
				var b fmtspec.Batch
				for _, l := range logs {
					p, e := fmtspec.EncodeLog(toSpecLog(l))
					if e != nil {
						bad("INTERNAL independent encoder: %v", e)
					}
					b.Payloads = append(b.Payloads, p)
				}
				// the segment that received the batch: greatest BaseIndex <= first index
				var tgt *types.SegmentInfo
				for k := range cur.Segments {
					sg := &cur.Segments[k]
					if sg.BaseIndex <= logs[0].Index && (tgt == nil || sg.BaseIndex > tgt.BaseIndex) {
						tgt = sg
					}
				}
				if tgt == nil {
					bad("no segment in metadata can hold index %d", logs[0].Index)
				} else {
					b.Seal = !tgt.SealTime.IsZero()
					fo.tracks[tgt.ID].batches = append(fo.tracks[tgt.ID].batches, b)
				}
			}
		case "D":
			// a tail truncation force-seals the old tail: an index + commit batch of its own
			for _, sg := range cur.Segments {
				if !sg.SealTime.IsZero() {
					if sealedBefore, known := wasSealed[sg.ID]; known && !sealedBefore {
						fo.tracks[sg.ID].batches = append(fo.tracks[sg.ID].batches, fmtspec.Batch{Seal: true})
					}
				}
			}
		}
	}
	fo.prev = cur
	// compare every listed segment with the independent encoding
	img := s.Disk.Volatile()
	first, last := fo.model.First, fo.model.Last
	for k, sg := range cur.Segments {
		fo.checked++
		name := fmtspec.FileName(sg.BaseIndex, sg.ID)
		file, ok := img.Files[name]
		if !ok {
			bad("segment ID %d BaseIndex %d: no file named %s in %v", sg.ID, sg.BaseIndex, name, img.Names())
			continue
		}
		tr := fo.tracks[sg.ID]
		if len(tr.batches) == 0 {
			continue // nothing committed yet: the statement constrains files only up to their last commit
		}
		enc, is := fmtspec.EncodeSegment(fmtspec.Header{BaseIndex: sg.BaseIndex, ID: sg.ID, Codec: sg.Codec}, tr.batches)
		if len(file) < len(enc) || !bytes.Equal(file[:len(enc)], enc) {
			at := firstDiff(file, enc)
			bad("%s differs from the independent encoding of its %d acknowledged batches at byte %d (file %s, spec %s)", name, len(tr.batches), at, hexAround(file, at), hexAround(enc, at))
			continue
		}
		sealed := !sg.SealTime.IsZero()
		if sealed && sg.IndexStart != is {
			bad("%s: metadata IndexStart %d, index array is at %d", name, sg.IndexStart, is)
		}
		if !sealed && (sg.IndexStart != 0 || sg.MaxIndex != 0) {
			bad("%s: unsealed but metadata has IndexStart %d MaxIndex %d", name, sg.IndexStart, sg.MaxIndex)
		}
		if !sealed && k != len(cur.Segments)-1 {
			bad("%s: unsealed segment is not the last one", name)
		}
		d, e := fmtspec.DecodeSegment(file)
		if e != nil {
			bad("%s: independent decoder: %v", name, e)
			continue
		}
		if d.Header.BaseIndex != sg.BaseIndex || d.Header.ID != sg.ID || d.Header.Codec != sg.Codec {
			bad("%s: header %+v disagrees with file name / metadata", name, d.Header)
		}
		if d.Commits != len(tr.batches) {
			bad("%s: %d commit frames for %d acknowledged batches", name, d.Commits, len(tr.batches))
		}
		if sealed {
			if len(d.IndexArr) != len(d.Offsets) {
				bad("%s: index frame has %d offsets for %d entries", name, len(d.IndexArr), len(d.Offsets))
			} else {
				for j := range d.IndexArr {
					if d.IndexArr[j] != d.Offsets[j] {
						bad("%s: index offset %d is %d, entry frame is at %d", name, j, d.IndexArr[j], d.Offsets[j])
						break
					}
				}
			}
		}
		// logical content through the independent decoder
		lo, hi := sg.MinIndex, sg.MaxIndex
		if !sealed {
			hi = sg.BaseIndex + uint64(len(d.Payloads)) - 1
			if len(d.Payloads) == 0 {
				continue
			}
		}
		for idx := lo; idx <= hi && hi > 0; idx++ {
			pos := idx - sg.BaseIndex
			if pos >= uint64(len(d.Payloads)) {
				bad("%s: metadata says it holds index %d but the file has only %d entries", name, idx, len(d.Payloads))
				break
			}
			if idx < first || idx > last {
				bad("%s: metadata range [%d,%d] reaches outside the log [%d,%d]", name, lo, hi, first, last)
				break
			}
			l, e := fmtspec.DecodeLog(d.Payloads[pos])
			want := fo.model.E[idx]
			if e != nil || want == nil || !core.LogsEqual(&raft.Log{Index: l.Index, Term: l.Term, Type: raft.LogType(l.Type), Data: l.Data, Extensions: l.Ext, AppendedAt: l.At}, want) {
				bad("%s: entry %d decoded independently is not what was stored (err %v)", name, idx, e)
				break
			}
		}
	}
	return vs
}

// endOracle checks only the state a whole sequence leaves behind (used for the variant that does not wait
// for background rotations between calls, where the per-batch bookkeeping of formatOracle does not apply):
// the metadata record decodes, every listed segment has a file whose header agrees with name and record, the
// files decode independently, sealed segments carry an index at IndexStart that matches their frames, the
// listed ranges are contiguous, and the entries decoded independently are exactly the model's.
type endOracle struct {
	model   *core.Model
	n       int
	checked int
	what    string
	// afterFaults: the history contained failed I/O. A sealing attempt whose fsync failed can leave a
	// well-formed index frame behind that a later recovery walks over (the pinned tree does this: the tail
	// is then taken as unsealed and sealed again later), so the number of index frames is not asserted there.
	afterFaults bool
}

func (eo *endOracle) afterStep(i int, op core.Op, err error, s *core.Sys) []core.Violation {
	if i > 0 && err == nil {
		nm := eo.model.Clone()
		if !core.ApplyModel(nm, op) {
			eo.model = nm
		}
	}
	if i != eo.n || s.W == nil {
		return nil
	}
	return eo.check(s)
}

// check applies the end-state clauses to what is on the (quiescent) simulated disk of s.
func (eo *endOracle) check(s *core.Sys) []core.Violation {
	var vs []core.Violation
	bad := func(f string, a ...interface{}) {
		what := eo.what
		if what == "" {
			what = "state left by the sequence (no waiting for rotations between calls): "
		}
		vs = append(vs, core.Violation{Prop: "C09", Msg: what + fmt.Sprintf(f, a...)})
	}
	cur, derr := core.DecodeMeta(s.MetaRaw())
	if derr != nil {
		bad("metadata record is not the documented JSON: %v", derr)
		return vs
	}
	img := s.Disk.Volatile()
	got := map[uint64]*raft.Log{}
	var prev *types.SegmentInfo
	for k := range cur.Segments {
		sg := &cur.Segments[k]
		eo.checked++
		name := fmtspec.FileName(sg.BaseIndex, sg.ID)
		sealed := !sg.SealTime.IsZero()
		if prev != nil {
			if prev.SealTime.IsZero() {
				bad("%s follows an unsealed segment", name)
			} else if sg.BaseIndex != prev.MaxIndex+1 || sg.ID <= prev.ID {
				bad("%s (BaseIndex %d ID %d) does not continue the previous segment (MaxIndex %d ID %d)", name, sg.BaseIndex, sg.ID, prev.MaxIndex, prev.ID)
			}
		}
		prev = sg
		file, ok := img.Files[name]
		if !ok {
			bad("segment ID %d BaseIndex %d: no file named %s in %v", sg.ID, sg.BaseIndex, name, img.Names())
			continue
		}
		if allZero(file) && !sealed {
			continue
		}
		d, e := fmtspec.DecodeSegment(file)
		if e != nil {
			bad("%s: independent decoder: %v", name, e)
			continue
		}
		if d.Header.BaseIndex != sg.BaseIndex || d.Header.ID != sg.ID || d.Header.Codec != sg.Codec {
			bad("%s: header %+v disagrees with file name / metadata", name, d.Header)
		}
		lo, hi := sg.MinIndex, sg.MaxIndex
		if want := map[bool]int{true: 1, false: 0}[sealed]; d.IndexFrames != want && !eo.afterFaults {
			bad("%s (sealed=%v): %d committed index frames in the file, the layout has %d (index frames are written once, when the segment is sealed); frames: %s", name, sealed, d.IndexFrames, want, d.Frames)
		}
		if sealed {
			if d.IndexStart == 0 || sg.IndexStart != d.IndexStart {
				bad("%s: metadata IndexStart %d, committed index array at %d", name, sg.IndexStart, d.IndexStart)
			} else if len(d.IndexArr) != len(d.Offsets) {
				bad("%s: index frame has %d offsets for %d entries", name, len(d.IndexArr), len(d.Offsets))
			} else {
				for j := range d.IndexArr {
					if d.IndexArr[j] != d.Offsets[j] {
						bad("%s: index offset %d is %d, entry frame is at %d", name, j, d.IndexArr[j], d.Offsets[j])
						break
					}
				}
			}
		} else {
			if len(d.Payloads) == 0 {
				continue
			}
			hi = sg.BaseIndex + uint64(len(d.Payloads)) - 1
		}
		for idx := lo; idx <= hi && hi > 0; idx++ {
			pos := idx - sg.BaseIndex
			if pos >= uint64(len(d.Payloads)) {
				bad("%s: metadata says it holds index %d but the file has only %d entries", name, idx, len(d.Payloads))
				break
			}
			l, e := fmtspec.DecodeLog(d.Payloads[pos])
			if e != nil {
				bad("%s: entry %d does not decode independently: %v", name, idx, e)
				break
			}
			got[idx] = &raft.Log{Index: l.Index, Term: l.Term, Type: raft.LogType(l.Type), Data: l.Data, Extensions: l.Ext, AppendedAt: l.At}
		}
	}
	if len(vs) == 0 {
		n := 0
		for idx := eo.model.First; idx <= eo.model.Last && eo.model.Last > 0; idx++ {
			n++
			if g := got[idx]; g == nil || !core.LogsEqual(g, eo.model.E[idx]) {
				bad("entry %d read independently from the files is not what was stored", idx)
				break
			}
		}
		if len(vs) == 0 && len(got) != n {
			bad("the files hold %d entries in the listed ranges, the log has %d [%d,%d]", len(got), n, eo.model.First, eo.model.Last)
		}
	}
	return vs
}

func allZero(b []byte) bool {
	for _, x := range b {
		if x != 0 {
			return false
		}
	}
	return true
}

func firstDiff(a, b []byte) int {
	n := len(a)
	if len(b) < n {
		n = len(b)
	}
	for i := 0; i < n; i++ {
		if a[i] != b[i] {
			return i
		}
	}
	return n
}

func hexAround(b []byte, at int) string {
	lo := at &^ 7
	hi := lo + 16
	if lo > len(b) {
		lo = len(b)
	}
	if hi > len(b) {
		hi = len(b)
	}
	return fmt.Sprintf("%x", b[lo:hi])
}

func runFormat() *ShardResult {
	res := newResult()
	thorough := *fTier == "thorough"
	depth := 4
	if thorough {
		depth = 5
	}
	deadline := time.Now().Add(*fBudget)
	cfgs := []core.Config{{SegSize: 128}, {SegSize: 200}, {SegSize: 64}, {SegSize: 4096}}
	res.Bounds["depth"] = depth
	res.Bounds["configs"] = cfgs
	res.Bounds["payload_sizes"] = "0..7 (all 8 padding residues), batches [3,6] and [5,0,2]"
	add := func(msg string, ops []core.Op, cfg core.Config) {
		if len(res.Findings) < 40 {
			f := core.Finding{Prop: "C09", Engine: "format", Msg: msg, Ops: ops, Cfg: cfg}
			f.SigS = fmt.Sprintf("C09|format|seg=%d|%s|%s", cfg.SegSize, core.OpsString(ops), firstLine(msg))
			res.Findings = append(res.Findings, f)
		}
	}
	alpha := func(m *core.Model) []core.Op {
		var ops []core.Op
		for _, idx := range nextIdx(m) {
			if m.Last == 0 && idx == 5 {
				ops = append(ops, core.Op{K: "A", Idx: idx, Sizes: []int{3}, Gen: genOf(m, idx)})
				continue
			}
			for s := 0; s < 8; s++ {
				ops = append(ops, core.Op{K: "A", Idx: idx, Sizes: []int{s}, Gen: genOf(m, idx)})
			}
			ops = append(ops, core.Op{K: "A", Idx: idx, Sizes: []int{3, 6}, Gen: genOf(m, idx)}, core.Op{K: "A", Idx: idx, Sizes: []int{5, 0, 2}, Gen: genOf(m, idx)})
		}
		if m.Last > 0 {
			ops = append(ops, core.Op{K: "D", Min: m.First, Max: m.First}, core.Op{K: "D", Min: m.Last, Max: m.Last}, core.Op{K: "D", Min: m.First, Max: m.Last})
			if m.Last > m.First {
				ops = append(ops, core.Op{K: "D", Min: m.First + 1, Max: m.Last})
			}
		}
		return append(ops, core.Op{K: "R"})
	}
	n := 0
	finals := map[string]bool{}
	start := time.Now()
	for ci, cfg := range cfgs {
		cfg := cfg
		dl := start.Add(*fBudget * time.Duration(ci+1) / time.Duration(len(cfgs)))
		if dl.After(deadline) {
			dl = deadline
		}
		var rec func(cur []core.Op, m *core.Model, want int)
		rec = func(cur []core.Op, m *core.Model, want int) {
			if time.Now().After(dl) {
				res.Exhaustive = false
				return
			}
			if len(cur) == want {
				n++
				if *fNShards > 1 && n%*fNShards != *fShard {
					return
				}
				fo := newFormatOracle()
				sys := core.Mount(simdisk.NewState(), cfg)
				sr := core.RunSession(nil, cfg, cur, core.SessionOpts{Sys: sys, CmpProp: "C05", CloseAtEnd: true, AfterStep: fo.afterStep})
				sys.Unmount()
				res.Counts["evaluations"]++
				res.Counts["transitions"] += int64(len(cur))
				res.Counts["traces_validated"]++
				res.Counts["segment_files_compared"] += int64(fo.checked)
				if fo.model.Last > 0 {
					res.Counts["distinct_nontrivial"]++
				}
				finals[fmt.Sprintf("seg%d:%s", cfg.SegSize, fo.model.Sig())] = true
				for _, v := range sr.Viol {
					add(v.Msg, cur, cfg)
				}
				if len(cur) >= 2 && len(cur) < depth {
					// the same calls without waiting for the background rotation in between, then a clean reopen
					full := append(append([]core.Op{}, cur...), core.Op{K: "R"})
					for _, stop := range []int{len(cur), len(full)} {
						eo := &endOracle{model: core.NewModel(), n: stop}
						sys2 := core.Mount(simdisk.NewState(), cfg)
						lr := core.RunSession(nil, cfg, full[:stop], core.SessionOpts{Sys: sys2, CmpProp: "C05", CloseAtEnd: true, Lazy: true, AfterStep: eo.afterStep})
						sys2.Unmount()
						res.Counts["lazy_rotation_runs"]++
						res.Counts["traces_validated"]++
						res.Counts["segment_files_compared"] += int64(eo.checked)
						for _, v := range lr.Viol {
							add("[lazy rotation] "+v.Msg, full[:stop], cfg)
						}
					}
				}
				if len(res.Samples) < 2 && len(cur) == depth && fo.checked > 6 {
					res.Samples = append(res.Samples, map[string]interface{}{"config": cfg, "ops": core.OpsString(cur), "segment_files_compared": fo.checked})
				}
				return
			}
			for _, o := range alpha(m) {
				nm := m.Clone()
				if core.ApplyModel(nm, o) {
					nm = m
				}
				rec(append(append([]core.Op{}, cur...), o), nm, want)
			}
		}
		for d := 1; d <= depth; d++ {
			rec(nil, core.NewModel(), d)
		}
	}
	for k := range finals {
		res.Sets["states"] = append(res.Sets["states"], k)
	}
	if *fShard == 0 {
		goldenChecks(res)
	}
	return res
}

// ---------------------------------------------------------------------------
// Golden fixtures written by the pinned version.

type gEntry struct {
	Index uint64 `json:"index"`
	Term  uint64 `json:"term"`
	Type  uint8  `json:"type"`
	Data  []byte `json:"data"`
	Ext   []byte `json:"ext"`
	At    string `json:"at"`
}

type gManifest struct {
	Name    string            `json:"name"`
	SegSize int               `json:"seg_size"`
	First   uint64            `json:"first"`
	Last    uint64            `json:"last"`
	Entries []gEntry          `json:"entries"`
	Stable  map[string][]byte `json:"stable"`
	U64     map[string]uint64 `json:"u64"`
}

func (e gEntry) log() *raft.Log {
	t, _ := time.Parse(time.RFC3339Nano, e.At)
	l := &raft.Log{Index: e.Index, Term: e.Term, Type: raft.LogType(e.Type), Data: e.Data, Extensions: e.Ext, AppendedAt: t}
	return l
}

func copyDir(src, dst string) error {
	ents, err := os.ReadDir(src)
	if err != nil {
		return err
	}
	for _, e := range ents {
		if e.Name() == "MANIFEST.json" {
			continue
		}
		in, err := os.Open(filepath.Join(src, e.Name()))
		if err != nil {
			return err
		}
		out, err := os.Create(filepath.Join(dst, e.Name()))
		if err != nil {
			in.Close()
			return err
		}
		_, err = io.Copy(out, in)
		in.Close()
		out.Close()
		if err != nil {
			return err
		}
	}
	return nil
}

func goldenChecks(res *ShardResult) {
	add := func(name, msg string) {
		f := core.Finding{Prop: "C09", Engine: "golden", Msg: fmt.Sprintf("golden %s: %s", name, msg), SigS: "C09|golden|" + name + "|" + firstLine(msg)}
		res.Findings = append(res.Findings, f)
	}
	dirs, err := os.ReadDir(goldenDir())
	if err != nil {
		res.Findings = append(res.Findings, core.Finding{Prop: "INTERNAL", Msg: "cannot read golden fixtures: " + err.Error()})
		return
	}
	for _, de := range dirs {
		if !de.IsDir() {
			continue
		}
		name := de.Name()
		src := filepath.Join(goldenDir(), name)
		var m gManifest
		b, err := os.ReadFile(filepath.Join(src, "MANIFEST.json"))
		if err != nil || json.Unmarshal(b, &m) != nil {
			add(name, "INTERNAL unreadable manifest")
			continue
		}
		res.Counts["golden_directories"]++
		res.Counts["evaluations"]++
		want := map[uint64]*raft.Log{}
		for _, e := range m.Entries {
			want[e.Index] = e.log()
		}
		// (1) the independent decoder alone, on the fixture as it is
		goldenIndependent(src, &m, want, func(s string) { add(name, "independent decoder: "+s) })
		// (2) the current tree opens a copy and shows identical contents, and can keep going
		tmp, err := os.MkdirTemp(core.ScratchRoot(), "verif-golden-")
		if err != nil {
			add(name, "INTERNAL "+err.Error())
			continue
		}
		if err := copyDir(src, tmp); err != nil {
			add(name, "INTERNAL copy: "+err.Error())
			os.RemoveAll(tmp)
			continue
		}
		w, err := wal.Open(tmp, wal.WithSegmentSize(m.SegSize))
		if err != nil {
			add(name, fmt.Sprintf("the current tree cannot open a directory written by the pinned version: %v", err))
			os.RemoveAll(tmp)
			continue
		}
		f, _ := w.FirstIndex()
		l, _ := w.LastIndex()
		if f != m.First || l != m.Last {
			add(name, fmt.Sprintf("FirstIndex/LastIndex %d/%d, fixture has %d/%d", f, l, m.First, m.Last))
		}
		lo := m.First
		if lo > 1 {
			lo--
		}
		for i := lo; i <= m.Last+1; i++ {
			var g raft.Log
			err := w.GetLog(i, &g)
			if wl := want[i]; wl != nil {
				if err != nil {
					add(name, fmt.Sprintf("GetLog(%d): %v", i, err))
				} else if !core.LogsEqual(&g, wl) {
					add(name, fmt.Sprintf("entry %d reads back as %s, fixture has %s", i, core.Fingerprint(&g), core.Fingerprint(wl)))
				}
			} else if err == nil {
				add(name, fmt.Sprintf("GetLog(%d) returned an entry outside the fixture's range", i))
			}
		}
		for k, v := range m.Stable {
			g, err := w.Get([]byte(k))
			if err != nil || !bytes.Equal(g, v) {
				add(name, fmt.Sprintf("stable key %s = %q (err %v), fixture has %q", k, g, err, v))
			}
		}
		for k, v := range m.U64 {
			g, err := w.GetUint64([]byte(k))
			if err != nil || g != v {
				add(name, fmt.Sprintf("uint64 key %s = %d (err %v), fixture has %d", k, g, err, v))
			}
		}
		nl := core.MkLog(m.Last+1, 5, 9)
		if err := w.StoreLog(nl); err != nil {
			add(name, fmt.Sprintf("append after opening the fixture failed: %v", err))
		}
		w.Close()
		// reopen: the appended entry and the old ones are there, and the files still decode independently
		w, err = wal.Open(tmp, wal.WithSegmentSize(m.SegSize))
		if err != nil {
			add(name, fmt.Sprintf("reopen after appending to the fixture failed: %v", err))
		} else {
			var g raft.Log
			if err := w.GetLog(m.Last+1, &g); err != nil || !core.LogsEqual(&g, nl) {
				add(name, fmt.Sprintf("entry appended to the fixture not read back after reopen (err %v)", err))
			}
			w.Close()
			want[m.Last+1] = nl
			m2 := m
			m2.Last = m.Last + 1
			if m2.First == 0 {
				m2.First = m2.Last
			}
			goldenIndependent(tmp, &m2, want, func(s string) { add(name, "after the current tree appended one entry, independent decoder: "+s) })
		}
		os.RemoveAll(tmp)
	}
}

// goldenIndependent reads the bolt record and the segment files with the
// independent implementation only.
func goldenIndependent(dir string, m *gManifest, want map[uint64]*raft.Log, bad func(string)) {
	db, err := bbolt.Open(filepath.Join(dir, "wal-meta.db"), 0o600, &bbolt.Options{ReadOnly: true, Timeout: 2 * time.Second})
	if err != nil {
		bad("cannot open wal-meta.db: " + err.Error())
		return
	}
	var raw []byte
	var stable = map[string][]byte{}
	db.View(func(tx *bbolt.Tx) error {
		if bk := tx.Bucket([]byte("wal-meta")); bk != nil {
			raw = append([]byte(nil), bk.Get([]byte("m"))...)
		}
		if bk := tx.Bucket([]byte("stable")); bk != nil {
			bk.ForEach(func(k, v []byte) error { stable[string(k)] = append([]byte(nil), v...); return nil })
		}
		return nil
	})
	db.Close()
	if raw == nil {
		bad("no record under key 'm' in bucket 'wal-meta'")
		return
	}
	var st struct {
		NextSegmentID uint64
		Segments      []struct {
			ID, BaseIndex, MinIndex, MaxIndex, Codec, IndexStart uint64
			CreateTime, SealTime                                 time.Time
		}
	}
	if err := json.Unmarshal(raw, &st); err != nil {
		bad("metadata record is not the documented JSON: " + err.Error())
		return
	}
	for k, v := range m.Stable {
		if !bytes.Equal(stable[k], v) {
			bad(fmt.Sprintf("stable bucket key %s = %q, fixture %q", k, stable[k], v))
		}
	}
	for k, v := range m.U64 {
		b := stable[k]
		var x uint64
		if len(b) == 8 {
			for i := 7; i >= 0; i-- {
				x = x<<8 | uint64(b[i])
			}
		}
		if len(b) != 8 || x != v {
			bad(fmt.Sprintf("stable bucket key %s = %x, want little-endian %d", k, b, v))
		}
	}
	seen := map[uint64]bool{}
	var names []string
	for k, sg := range st.Segments {
		name := fmtspec.FileName(sg.BaseIndex, sg.ID)
		names = append(names, name)
		file, err := os.ReadFile(filepath.Join(dir, name))
		if err != nil {
			bad("segment file missing: " + name)
			continue
		}
		sealed := !sg.SealTime.IsZero()
		if !sealed && allZero(file) {
			continue // tail that nothing was committed to yet: the header is written with the first commit
		}
		d, err := fmtspec.DecodeSegment(file)
		if err != nil {
			bad(name + ": " + err.Error())
			continue
		}
		if d.Header.BaseIndex != sg.BaseIndex || d.Header.ID != sg.ID || d.Header.Codec != sg.Codec {
			bad(fmt.Sprintf("%s: header %+v disagrees with name/metadata", name, d.Header))
		}
		if sealed != (k != len(st.Segments)-1) {
			bad(fmt.Sprintf("%s: sealed=%v at position %d of %d", name, sealed, k, len(st.Segments)))
		}
		lo, hi := sg.MinIndex, sg.MaxIndex
		if sealed {
			if d.IndexStart != sg.IndexStart {
				bad(fmt.Sprintf("%s: IndexStart in metadata %d, index array found at %d", name, sg.IndexStart, d.IndexStart))
			}
			for j := range d.IndexArr {
				if j < len(d.Offsets) && d.IndexArr[j] != d.Offsets[j] {
					bad(fmt.Sprintf("%s: index offset %d wrong", name, j))
					break
				}
			}
		} else {
			hi = sg.BaseIndex + uint64(len(d.Payloads)) - 1
			if len(d.Payloads) == 0 {
				continue
			}
		}
		for idx := lo; idx <= hi; idx++ {
			pos := idx - sg.BaseIndex
			if pos >= uint64(len(d.Payloads)) {
				bad(fmt.Sprintf("%s: index %d not in file", name, idx))
				break
			}
			l, err := fmtspec.DecodeLog(d.Payloads[pos])
			wl := want[idx]
			if err != nil || wl == nil || !core.LogsEqual(&raft.Log{Index: l.Index, Term: l.Term, Type: raft.LogType(l.Type), Data: l.Data, Extensions: l.Ext, AppendedAt: l.At}, wl) {
				bad(fmt.Sprintf("%s: entry %d decoded independently differs from the fixture (err %v)", name, idx, err))
				break
			}
			seen[idx] = true
		}
	}
	for idx := range want {
		if !seen[idx] {
			bad(fmt.Sprintf("fixture entry %d not found through metadata + independent decoder", idx))
			break
		}
	}
	// directory holds exactly the db and the listed segments
	ents, _ := os.ReadDir(dir)
	var have []string
	for _, e := range ents {
		if strings.HasSuffix(e.Name(), ".wal") {
			have = append(have, e.Name())
		}
	}
	sort.Strings(have)
	sort.Strings(names)
	if strings.Join(have, ",") != strings.Join(names, ",") {
		bad(fmt.Sprintf("directory holds %v, metadata lists %v", have, names))
	}
}

func goldenDir() string {
	if v := os.Getenv("VERIF_DIR"); v != "" {
		return filepath.Join(v, "golden")
	}
	return "/verif/golden"
}

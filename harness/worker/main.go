// Command worker runs one shard of one engine and prints JSON lines.
package main

import (
	"encoding/json"
	"flag"
	"fmt"
	"os"
	"time"
)

var (
	fProp      = flag.String("prop", "", "property id")
	fTier      = flag.String("tier", "quick", "quick|thorough")
	fShard     = flag.Int("shard", 0, "")
	fNShards   = flag.Int("nshards", 1, "")
	fOut       = flag.String("out", "", "result file (JSON)")
	fBudget    = flag.Duration("budget", 60*time.Second, "time budget")
	fReplay    = flag.String("replay", "", "replay artefact")
	fSeed      = flag.Int64("seed", 0, "")
	fRaceBin   = flag.String("racebin", "", "race-enabled worker for the free-running pass")
	fPlainBinV = flag.String("plainbin", "", "worker built without the overlay (traced child)")
	fInV       = flag.String("in", "", "input file for child engines")
)

type engineFn func() *ShardResult

var engines = map[string]engineFn{}

func main() {
	flag.Parse()
	fPlainBin, fIn = fPlainBinV, fInV
	if *fReplay != "" {
		os.Exit(replayMain(*fReplay))
	}
	fn := engines[*fProp]
	if fn == nil {
		fmt.Fprintf(os.Stderr, "worker: no engine for property %q\n", *fProp)
		os.Exit(2)
	}
	t0 := time.Now()
	res := fn()
	res.Prop = *fProp
	res.Shard = *fShard
	res.WallS = time.Since(t0).Seconds()
	res.Done = true
	b, _ := json.Marshal(res)
	if *fOut != "" {
		if err := os.WriteFile(*fOut, b, 0o644); err != nil {
			fmt.Fprintln(os.Stderr, err)
			os.Exit(2)
		}
	} else {
		os.Stdout.Write(b)
		fmt.Println()
	}
}

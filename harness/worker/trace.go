package main

import (
	"encoding/json"
	"fmt"
	"math"
	"os"
	"os/exec"
	"path/filepath"
	"sort"
	"strings"
	"time"

	wal "github.com/hashicorp/raft-wal"

	"verif/harness/core"
	"verif/simdisk"
)

var fPlainBin *string
var fIn *string

func init() {
	engines["C07"] = func() *ShardResult {
		total := *fBudget
		*fBudget = total * 3 / 4
		res := runTrace()
		// what Create hands out when preallocation (or any other step) fails: simulated OS, every failing step
		*fBudget = total / 4
		res.merge(runFault("C07"), "fault_")
		*fBudget = total
		if *fShard == 0 {
			filerDeleteCases(res)
		}
		return res
	}
	engines["C07TRACE"] = runTrace
	engines["C07CHILD"] = runTraceChild
}

type traceWorkload struct {
	ID  int         `json:"id"`
	Cfg core.Config `json:"cfg"`
	Ops []core.Op   `json:"ops"`
}

func traceAlphabet(m *core.Model) []core.Op {
	ops := appendOps(m, [][]int{{4}, {4, 4}})
	if m.Last > 0 {
		ops = append(ops, core.Op{K: "D", Min: m.First, Max: m.First}, core.Op{K: "D", Min: m.Last, Max: m.Last}, core.Op{K: "D", Min: m.First, Max: m.Last})
	}
	return append(ops, core.Op{K: "S", Key: "k1", Val: []byte("v")}, core.Op{K: "R"})
}

func runTrace() *ShardResult {
	res := newResult()
	thorough := *fTier == "thorough"
	depth := 3
	if thorough {
		depth = 4
	}
	res.Bounds["depth"] = depth
	cfgs := []core.Config{{SegSize: 128}, {SegSize: 4096}}
	res.Bounds["configs"] = cfgs
	if *fPlainBin == "" {
		res.Findings = append(res.Findings, core.Finding{Prop: "INTERNAL", Msg: "no -plainbin given"})
		return res
	}
	if _, err := exec.LookPath("strace"); err != nil {
		res.Findings = append(res.Findings, core.Finding{Prop: "INTERNAL", Msg: "strace not available: " + err.Error()})
		return res
	}
	// enumerate workloads, keep this shard's share
	var wls []traceWorkload
	n := 0
	for _, cfg := range cfgs {
		var rec func(cur []core.Op, m *core.Model)
		rec = func(cur []core.Op, m *core.Model) {
			if len(cur) > 0 {
				n++
				if *fNShards <= 1 || n%*fNShards == *fShard {
					wls = append(wls, traceWorkload{ID: n, Cfg: cfg, Ops: append([]core.Op{}, cur...)})
				}
			}
			if len(cur) >= depth {
				return
			}
			for _, o := range traceAlphabet(m) {
				nm := m.Clone()
				if core.ApplyModel(nm, o) {
					continue
				}
				rec(append(append([]core.Op{}, cur...), o), nm)
			}
		}
		rec(nil, core.NewModel())
	}
	work, err := os.MkdirTemp(core.ScratchRoot(), "verif-trace-")
	if err != nil {
		res.Findings = append(res.Findings, core.Finding{Prop: "INTERNAL", Msg: err.Error()})
		return res
	}
	defer os.RemoveAll(work)
	add := func(sig, msg string, wl *traceWorkload) {
		if len(res.Findings) < 40 {
			f := core.Finding{Prop: "C07", Engine: "trace", Msg: msg, SigS: "C07|trace|" + sig}
			if wl != nil {
				f.Cfg, f.Ops = wl.Cfg, wl.Ops
			}
			res.Findings = append(res.Findings, f)
		}
	}
	deadline := time.Now().Add(*fBudget)
	byID := map[int]*traceWorkload{}
	// run in chunks so that one strace session stays small
	const chunk = 150
	for lo := 0; lo < len(wls); lo += chunk {
		if time.Now().After(deadline) {
			res.Exhaustive = false
			break
		}
		hi := lo + chunk
		if hi > len(wls) {
			hi = len(wls)
		}
		part := wls[lo:hi]
		for i := range part {
			byID[part[i].ID] = &part[i]
		}
		in := filepath.Join(work, fmt.Sprintf("wl-%d.json", lo))
		b, _ := json.Marshal(part)
		os.WriteFile(in, b, 0o644)
		tr := filepath.Join(work, fmt.Sprintf("trace-%d.txt", lo))
		cmd := exec.Command("strace", "-f", "-s", "300", "-o", tr, "-e", "trace=openat,close,pwrite64,write,fsync,fdatasync,fallocate,ftruncate,unlinkat,unlink,rmdir,rename,renameat,renameat2",
			*fPlainBin, "-prop", "C07CHILD", "-in", in, "-out", filepath.Join(work, "child.json"))
		cmd.Env = append(os.Environ(), "GOMAXPROCS=2")
		out, err := cmd.CombinedOutput()
		if err != nil {
			add("internal", fmt.Sprintf("INTERNAL traced child failed: %v\n%s", err, tailStr(string(out), 800)), nil)
			res.Findings[len(res.Findings)-1].Prop = "INTERNAL"
			return res
		}
		evs, err := core.ParseStrace(tr)
		os.Remove(tr)
		if err != nil {
			add("internal", "INTERNAL cannot parse trace: "+err.Error(), nil)
			res.Findings[len(res.Findings)-1].Prop = "INTERNAL"
			return res
		}
		mon := core.NewMonitor()
		for _, e := range evs {
			mon.Feed(e)
		}
		res.Counts["syscalls_monitored"] += int64(len(evs))
		for _, wt := range mon.Done {
			wl := byID[wt.ID]
			res.Counts["evaluations"]++
			res.Counts["transitions"] += int64(len(wt.Events))
			res.Counts["acks_checked"] += int64(wt.Acks)
			if len(wt.Events) > 6 {
				res.Counts["distinct_nontrivial"]++
			}
			for _, v := range wt.Viol {
				add(fmt.Sprintf("seg=%d|%s|%s", wl.Cfg.SegSize, core.OpsString(wl.Ops), v), v, wl)
			}
			// conformance: the simulated OS under the real fs package must see the same event sequence
			if wl != nil {
				simEv, simViol := simEvents(wl)
				for _, v := range simViol {
					if v.Prop == "C07" {
						add(fmt.Sprintf("seg=%d|%s|%s", wl.Cfg.SegSize, core.OpsString(wl.Ops), v.Msg), "[simulated OS] "+v.Msg, wl)
					}
				}
				realEv := filterEvents(wt.Events)
				res.Counts["traces_validated"]++
				if a, b := evString(simEv), evString(realEv); a != b {
					add("conformance|"+core.OpsString(wl.Ops), fmt.Sprintf("the kernel-level event sequence of the real filesystem layer differs from the simulated one for this workload:\n real: %s\n sim:  %s", b, a), wl)
				}
				if len(res.Samples) < 2 && len(realEv) > 12 {
					res.Samples = append(res.Samples, map[string]interface{}{"config": wl.Cfg, "ops": core.OpsString(wl.Ops), "kernel_events": evString(realEv)})
				}
				res.Sets["states"] = append(res.Sets["states"], evString(realEv))
			}
		}
		if len(mon.Done) != len(part) {
			add("internal", fmt.Sprintf("INTERNAL %d workloads traced, %d expected", len(mon.Done), len(part)), nil)
			res.Findings[len(res.Findings)-1].Prop = "INTERNAL"
		}
	}
	return res
}

// canonUnlinkRuns sorts the names inside maximal runs of (unlink, fsyncdir)
// pairs: their order comes from Go map iteration in deleteSegments.
func canonUnlinkRuns(es []core.FsEvent) []core.FsEvent {
	out := append([]core.FsEvent{}, es...)
	i := 0
	for i < len(out) {
		j := i
		for j+1 < len(out) && out[j].Kind == "unlink" && out[j+1].Kind == "fsyncdir" {
			j += 2
		}
		if (j-i)/2 >= 2 {
			var names []string
			for k := i; k < j; k += 2 {
				names = append(names, out[k].Name)
			}
			sort.Strings(names)
			for k, n := range names {
				out[i+2*k].Name = n
			}
			i = j
			continue
		}
		i++
	}
	return out
}

func evString(es []core.FsEvent) string {
	es = canonUnlinkRuns(es)
	ss := make([]string, len(es))
	for i, e := range es {
		ss[i] = e.String()
	}
	return strings.Join(ss, " ")
}

// filterEvents keeps what both stacks have in common: segment-file events and
// directory fsyncs (the metadata store is bbolt on one side, simMeta on the other).
func filterEvents(es []core.FsEvent) []core.FsEvent {
	var out []core.FsEvent
	seenSeg := false
	for _, e := range es {
		if e.Kind == "meta" {
			continue
		}
		if e.Kind == "fsyncdir" && !seenSeg {
			continue // the directory fsync of the metadata database's creation
		}
		if e.Kind != "fsyncdir" {
			seenSeg = true
		}
		out = append(out, e)
	}
	return out
}

// simEvents runs the workload on the simulated OS (this binary is built with the overlay).
func simEvents(wl *traceWorkload) ([]core.FsEvent, []core.Violation) {
	sys := core.Mount(simdisk.NewState(), wl.Cfg)
	defer sys.Unmount()
	sr := core.RunSession(nil, wl.Cfg, wl.Ops, core.SessionOpts{Sys: sys, CloseAtEnd: true})
	names := map[int]string{}
	var out []core.FsEvent
	for _, o := range sys.Disk.Log {
		switch o.Kind {
		case simdisk.OpCreate:
			names[o.Ino] = o.Name
			out = append(out, core.FsEvent{Kind: "create", Name: o.Name})
		case simdisk.OpPrealloc:
			out = append(out, core.FsEvent{Kind: "prealloc", Name: names[o.Ino], Len: o.Size})
		case simdisk.OpWrite:
			out = append(out, core.FsEvent{Kind: "pwrite", Name: names[o.Ino], Off: o.Off, Len: int64(len(o.Data))})
		case simdisk.OpFsync:
			out = append(out, core.FsEvent{Kind: "fsync", Name: names[o.Ino]})
		case simdisk.OpFsyncDir:
			out = append(out, core.FsEvent{Kind: "fsyncdir"})
		case simdisk.OpUnlink:
			out = append(out, core.FsEvent{Kind: "unlink", Name: o.Name})
		}
	}
	return out, sr.Viol
}

// ---------------------------------------------------------------------------
// the traced child: real fs + real bbolt, markers written to /dev/null

func runTraceChild() *ShardResult {
	res := newResult()
	b, err := os.ReadFile(*fIn)
	if err != nil {
		fmt.Fprintln(os.Stderr, err)
		os.Exit(2)
	}
	var wls []traceWorkload
	if err := json.Unmarshal(b, &wls); err != nil {
		fmt.Fprintln(os.Stderr, err)
		os.Exit(2)
	}
	mk, err := os.OpenFile("/dev/null", os.O_WRONLY, 0)
	if err != nil {
		fmt.Fprintln(os.Stderr, err)
		os.Exit(2)
	}
	mark := func(f string, a ...interface{}) { mk.Write([]byte("MARK " + fmt.Sprintf(f, a...) + "\n")) }
	okS := func(err error) string {
		if err == nil {
			return "ok"
		}
		return "err"
	}
	for _, wl := range wls {
		dir, err := os.MkdirTemp(core.ScratchRoot(), "verif-tr-")
		if err != nil {
			os.Exit(2)
		}
		if wl.ID%3 == 0 {
			// the same path has held an earlier WAL directory in this process (removed and created again):
			// what the process remembers about the old directory must not stand in for the new one
			if w0, err := wal.Open(dir, wal.WithSegmentSize(wl.Cfg.SegSize)); err == nil {
				w0.StoreLog(core.MkLog(1, 0, 4))
				w0.StoreLog(core.MkLog(2, 0, 4))
				w0.Close()
			}
			os.RemoveAll(dir)
			if err := os.Mkdir(dir, 0o700); err != nil {
				os.Exit(2)
			}
		}
		mark("%d BEGIN %s %d", wl.ID, dir, wl.Cfg.SegSize)
		mark("%d CALL 0 open", wl.ID)
		w, err := wal.Open(dir, wal.WithSegmentSize(wl.Cfg.SegSize))
		mark("%d ACK 0 open %s", wl.ID, okS(err))
		if err == nil {
			checkZeroFill(dir, wl.Cfg.SegSize, func(s string) { mark("%d NOTE %s", wl.ID, s) })
			for i, op := range wl.Ops {
				mark("%d CALL %d %s", wl.ID, i+1, op.K)
				var e error
				switch op.K {
				case "A":
					e = w.StoreLogs(op.Logs())
				case "D":
					e = w.DeleteRange(op.Min, op.Max)
				case "S":
					e = w.Set([]byte(op.Key), op.Val)
				case "R":
					e = w.Close()
					if e == nil {
						w, e = wal.Open(dir, wal.WithSegmentSize(wl.Cfg.SegSize))
					}
				}
				k := op.K
				if k == "R" {
					k = "open"
				}
				mark("%d ACK %d %s %s", wl.ID, i+1, k, okS(e))
				if e != nil {
					break
				}
				// let a queued rotation finish before the next call: DeleteRange of
				// nothing waits for it and performs no I/O of its own
				w.DeleteRange(math.MaxUint64, math.MaxUint64)
				checkZeroFill(dir, wl.Cfg.SegSize, func(s string) { mark("%d NOTE %s", wl.ID, s) })
			}
			if w != nil {
				w.Close()
			}
		}
		mark("%d END", wl.ID)
		os.RemoveAll(dir)
	}
	return res
}

// checkZeroFill: every segment file is at least the requested size and every
// byte after its written prefix is zero (R4, second half).
func checkZeroFill(dir string, seg int, bad func(string)) {
	ents, _ := os.ReadDir(dir)
	for _, e := range ents {
		if !strings.HasSuffix(e.Name(), ".wal") {
			continue
		}
		b, err := os.ReadFile(filepath.Join(dir, e.Name()))
		if err != nil {
			continue
		}
		if len(b) < seg {
			bad(fmt.Sprintf("R4: segment file %s is %d bytes, requested size %d", e.Name(), len(b), seg))
			continue
		}
		// find the end of the written prefix by scanning frames is the code's business; here:
		// once a run of 64 zero bytes starts, everything after it must be zero too
		z := 0
		for i, x := range b {
			if x == 0 {
				z++
			} else {
				if z >= 64 {
					bad(fmt.Sprintf("R4: segment file %s has non-zero byte at %d after a zero region (not zero-filled)", e.Name(), i))
					break
				}
				z = 0
			}
		}
	}
}

// filerDeleteCases: Filer.Delete with every one of its I/O steps failing in every flavour, then a retry.
func filerDeleteCases(res *ShardResult) {
	_, n, _ := core.FilerDeleteCase(-1000, simdisk.FaultClean) // fault-free run sizes the menu
	outcomes := map[string]bool{}
	for at := -1; at < n; at++ {
		for _, kind := range []simdisk.FaultKind{simdisk.FaultClean, simdisk.FaultAfter} {
			if at < 0 && kind != simdisk.FaultClean {
				continue
			}
			a := at
			if at < 0 {
				a = -1000
			}
			viol, _, oc := core.FilerDeleteCase(a, kind)
			res.Counts["evaluations"]++
			res.Counts["filer_delete_cases"]++
			res.Counts["traces_validated"]++
			outcomes[oc] = true
			for _, v := range viol {
				res.Findings = append(res.Findings, core.Finding{Prop: "C07", Engine: "filerdelete", Msg: fmt.Sprintf("Filer.Delete with I/O step %d failing (flavour %d): %s", at, kind, v), SigS: fmt.Sprintf("C07|filerdelete|%d|%d", at, kind)})
			}
		}
	}
	for o := range outcomes {
		res.Sets["states"] = append(res.Sets["states"], "filerdelete:"+o)
	}
}

package main

import (
	"fmt"
	"os"
	"time"

	"verif/harness/core"
	"verif/shim/vsched"
)

func init() {
	engines["C16"] = func() *ShardResult { return runCluster("C16") }
	engines["C17"] = func() *ShardResult { return runCluster("C17") }
}

func clusterAlphabet(nodes int) []core.VEvent {
	var ev []core.VEvent
	ev = append(ev, core.VEvent{K: "LA", N: 1}, core.VEvent{K: "LA", N: 1, CP: true}, core.VEvent{K: "LA", N: 2}, core.VEvent{K: "LA", N: 2, CP: true}, core.VEvent{K: "LA", N: 1, Fail: true}, core.VEvent{K: "LA", N: 2, CP2: true})
	for n := 0; n < nodes; n++ {
		ev = append(ev, core.VEvent{K: "RP", Node: n}, core.VEvent{K: "RP", Node: n, N: 1}, core.VEvent{K: "RP", Node: n, Split: true}, core.VEvent{K: "RP", Node: n, N: 1, Fail: true}, core.VEvent{K: "RP", Node: n, Lost: true})
	}
	for n := 0; n < nodes; n++ {
		ev = append(ev, core.VEvent{K: "LC", Node: n})
	}
	for n := 0; n < nodes; n++ {
		ev = append(ev, core.VEvent{K: "RS", Node: n})
	}
	for n := 0; n < nodes; n++ {
		ev = append(ev, core.VEvent{K: "HT", Node: n, N: 1})
	}
	return ev
}

type clusterRun struct {
	key      string
	viol     []core.Violation
	enabled  bool
	reports  int
	clean    int
	diverged int
	rangeMis int
	panicMsg string
	ranges   []reportInfo
}

type reportInfo struct {
	node       int
	start, end uint64
}

// replayCluster builds a fresh cluster, applies hist and then e (if enabled).
func replayCluster(nodes int, hist []core.VEvent, e *core.VEvent, mut *core.Mutation, restBeforeLast bool) *clusterRun {
	out := &clusterRun{}
	res := vsched.Run(vsched.DefaultChooser{}, 0, false, func() {
		c := core.NewVCluster(nodes)
		if mut != nil && mut.Where == "flight" {
			c.SetFlight(mut)
		}
		for i, h := range hist {
			if mut != nil && mut.Where == "rest" && e == nil && restBeforeLast && i == len(hist)-1 {
				c.SetRest(mut)
			}
			c.Apply(h)
		}
		if e != nil {
			if !c.Enabled(*e) {
				c.CloseAll()
				return
			}
			out.enabled = true
			c.Apply(*e)
		} else {
			out.enabled = true
		}
		full := hist
		if e != nil {
			full = append(append([]core.VEvent{}, hist...), *e)
		}
		out.key = c.Key(core.VEventsString(full))
		out.viol = c.Viol
		if mut == nil && len(c.DivergedNotes) > 0 && os.Getenv("VDEBUG") != "" {
			fmt.Println("DIVERGED", core.VEventsString(full), c.DivergedNotes)
		}
		out.reports, out.clean, out.diverged, out.rangeMis = c.Checked, c.Clean, c.Diverged, c.RangeMis
		for _, r := range c.LastReports {
			out.ranges = append(out.ranges, reportInfo{r.Node, r.Start, r.End})
		}
		c.CloseAll()
	})
	for _, p := range res.Panics {
		out.panicMsg = p.Val + "\n" + p.Stack
	}
	if res.Deadlock {
		out.panicMsg = fmt.Sprintf("deadlock: %v", res.Blocked)
	}
	return out
}

// vconcScenarios: appends racing with log compaction (and with the verifier goroutine's reads).
func vconcScenarios(prop string) []*core.VConc {
	var out []*core.VConc
	if prop == "C20" {
		for _, node := range []int{0, 1} {
			who := []string{"leader", "follower"}[node]
			for _, tm := range []uint64{2, 3, 4} {
				out = append(out, &core.VConc{Name: fmt.Sprintf("counters, %s: StoreLogs(6), StoreLogs(checkpoint 7) || DeleteRange(1,%d) || verifier", who, tm), Node: node, TruncMax: tm, WithCP: true, CountersOnly: true})
			}
		}
		return out
	}
	if prop == "C16" {
		for _, node := range []int{0, 1} {
			who := []string{"leader", "follower"}[node]
			for _, tm := range []uint64{1, 2} {
				out = append(out, &core.VConc{Name: fmt.Sprintf("%s: StoreLogs(6), StoreLogs(checkpoint 7) || DeleteRange(1,%d) || verifier", who, tm), Node: node, TruncMax: tm, WithCP: true})
			}
			for _, tm := range []uint64{3, 4} {
				out = append(out, &core.VConc{Name: fmt.Sprintf("%s: StoreLogs(6) || DeleteRange(1,%d) reaching into the running sum; checkpoint 7 afterwards", who, tm), Node: node, TruncMax: tm})
			}
		}
		return out
	}
	for _, node := range []int{1, 0} {
		who := []string{"leader", "follower"}[node]
		for _, idx := range []uint64{3, 5, 6} {
			for _, f := range []string{"databit", "term+1"} {
				if idx == 6 && node == 0 {
					continue // the leader's own entry 6 is written inside the scenario
				}
				out = append(out, &core.VConc{Name: fmt.Sprintf("%s with entry %d altered at rest (%s): StoreLogs(6), StoreLogs(checkpoint 7) || DeleteRange(1,2) || verifier", who, idx, f),
					Node: node, TruncMax: 2, WithCP: true, Rest: &core.Mutation{Where: "rest", Node: node, Index: idx, Field: f}})
			}
		}
	}
	return out
}

// runVConc explores every schedule of each scenario up to the preemption bound.
func runVConc(res *ShardResult, prop string, budget time.Duration) {
	bound := 3
	if *fTier == "thorough" {
		bound = 5
	}
	scs := vconcScenarios(prop)
	var names []string
	for _, s := range scs {
		names = append(names, s.Name)
	}
	res.Bounds["concurrent_scenarios"] = names
	res.Bounds["concurrent_preemption_bound"] = bound
	start := time.Now()
	for si, sc := range scs {
		sc := sc
		st := &core.ExploreStats{}
		var last *core.VConcResult
		nf := 0
		x := &core.Explorer{Bound: bound, Deadline: start.Add(budget * time.Duration(si+1) / time.Duration(len(scs))), Shard: *fShard, NShards: *fNShards, Stats: st,
			Run: func(ch vsched.Chooser) *vsched.Result {
				r, o := core.RunVConc(ch, sc)
				last = o
				return r
			},
			Stop: func() bool { return nf >= 4 },
		}
		x.Check = func(prefix []int, r *vsched.Result) {
			st.Outcomes[last.History]++
			for _, v := range last.Viol {
				nf++
				if len(res.Findings) < 40 {
					f := core.Finding{Prop: v.Prop, Engine: "vconc", Msg: v.Msg, Extra: map[string]interface{}{"scenario": sc, "schedule": append([]int(nil), prefix...)}}
					f.SigS = fmt.Sprintf("%s|vconc|%s|%s", v.Prop, sc.Name, firstLine(v.Msg))
					res.Findings = append(res.Findings, f)
				}
			}
		}
		x.Explore()
		res.Counts["concurrent_schedules"] += int64(st.Executions)
		res.Counts["evaluations"] += int64(st.Executions)
		res.Counts["transitions"] += int64(st.Executions)
		res.Counts["traces_validated"] += int64(st.Executions)
		for o := range st.Outcomes {
			res.Sets["states"] = append(res.Sets["states"], fmt.Sprintf("vconc%d:%s", si, o))
		}
		res.hist("concurrent_schedules_per_scenario", fmt.Sprintf("s%d", si+1), int64(st.Executions))
		if !st.Complete {
			res.Exhaustive = false
			res.Notes = append(res.Notes, fmt.Sprintf("concurrent scenario %q not completed at preemption bound %d", sc.Name, bound))
		}
	}
}

func runCluster(prop string) *ShardResult {
	res := newResult()
	thorough := *fTier == "thorough"
	total := *fBudget
	runVConc(res, prop, total/5)
	if prop == "C16" {
		// the middleware over a real WAL (default codec, reused read buffers): nothing is ever altered, so no
		// report may speak of corruption
		dl := time.Now().Add(total / 10)
		tn := 0
		twinSeqs(3, func() bool { return time.Now().Before(dl) }, func(cur []core.TOp) {
			tn++
			r := core.RunTwin(cur, core.Config{SegSize: 200})
			res.Counts["twin_sequences_over_wal"]++
			res.Counts["evaluations"]++
			res.Counts["traces_validated"]++
			for _, v := range r.Viol {
				if v.Prop == "C16" && len(res.Findings) < 40 {
					res.Findings = append(res.Findings, core.Finding{Prop: "C16", Engine: "twin", Msg: v.Msg, Extra: map[string]interface{}{"ops": cur, "sequence": twinString(cur)}, SigS: "C16|twin|" + twinString(cur)})
				}
			}
		})
	}
	*fBudget = total * 7 / 10
	defer func() { *fBudget = total }()
	nodes, depth := 2, 7
	if thorough {
		nodes, depth = 3, 7
	}
	if prop == "C17" {
		depth = 6
		if thorough {
			nodes, depth = 3, 6
		}
	}
	deadline := time.Now().Add(*fBudget)
	sweepDeadline := deadline
	if prop == "C17" {
		// the search for histories that end in reports gets half of the time, the mutation sweep over them
		// (shortest histories first) the other half
		deadline = time.Now().Add(*fBudget / 2)
	}
	alpha := clusterAlphabet(nodes)
	res.Bounds["nodes"] = nodes
	res.Bounds["depth"] = depth
	res.Bounds["alphabet"] = len(alpha)
	addF := func(p, msg string, hist []core.VEvent, mut *core.Mutation) {
		if len(res.Findings) >= 40 {
			return
		}
		f := core.Finding{Prop: p, Engine: "cluster", Msg: msg, Extra: map[string]interface{}{"nodes": nodes, "events": hist, "history": core.VEventsString(hist)}}
		f.SigS = fmt.Sprintf("%s|cluster|n=%d|%s", p, nodes, core.VEventsString(hist))
		if mut != nil {
			f.Extra["mutation"] = mut
			f.SigS += "|" + mut.String()
		}
		res.Findings = append(res.Findings, f)
	}
	seen := map[string]bool{}
	type st struct{ hist []core.VEvent }
	frontier := []st{{}}
	levelsDone := 0
	// every shard runs the same BFS (it is cheap); C17's mutation sweep is what gets sharded
	var checkpointHists [][]core.VEvent
	for d := 1; d <= depth && len(frontier) > 0; d++ {
		var next []st
		complete := true
		for _, s := range frontier {
			if time.Now().After(deadline) {
				complete = false
				break
			}
			for i := range alpha {
				e := alpha[i]
				r := replayCluster(nodes, s.hist, &e, nil, false)
				if !r.enabled {
					continue
				}
				h := append(append([]core.VEvent{}, s.hist...), e)
				res.Counts["transitions"]++
				if *fShard == 0 || prop == "C17" {
					res.Counts["evaluations"]++
					res.Counts["traces_validated"]++
				}
				if r.panicMsg != "" {
					addF(prop, "panic/deadlock in cluster run: "+r.panicMsg, h, nil)
					continue
				}
				for _, v := range r.viol {
					addF(v.Prop, v.Msg, h, nil)
				}
				res.Counts["reports_checked"] += int64(r.reports)
				res.Counts["reports_on_intact_ranges"] += int64(r.clean)
				res.Counts["reports_range_mismatch"] += int64(r.rangeMis)
				if len(r.ranges) > 0 && len(r.viol) == 0 {
					checkpointHists = append(checkpointHists, h)
				}
				if seen[r.key] {
					continue
				}
				seen[r.key] = true
				if r.reports > 0 {
					res.Counts["distinct_nontrivial"]++
				}
				if len(res.Samples) < 3 && r.reports > 0 && d >= 4 {
					res.Samples = append(res.Samples, map[string]interface{}{"events": core.VEventsString(h), "reports": r.reports})
				}
				next = append(next, st{h})
			}
		}
		if !complete {
			res.Exhaustive = false
			break
		}
		levelsDone = d
		frontier = next
	}
	res.Mins["levels_completed"] = int64(levelsDone)
	for k := range seen {
		res.Sets["states"] = append(res.Sets["states"], k)
	}
	if prop == "C17" {
		mutationSweep(res, nodes, checkpointHists, sweepDeadline, addF)
	}
	return res
}

var mutFields = []string{"term+1", "term-1", "type", "databit", "datatrunc", "dataext", "datanil", "extbit", "extadd"}

// mutationSweep: for every history whose last event produced reports, alter one
// field of one entry of a reported range - in flight into the node, or at rest
// on the node - and require ErrChecksumMismatch in that node's report.
func mutationSweep(res *ShardResult, nodes int, hists [][]core.VEvent, deadline time.Time, addF func(string, string, []core.VEvent, *core.Mutation)) {
	n := 0
	for _, h := range hists {
		base := replayCluster(nodes, h, nil, nil, false)
		seenR := map[reportInfo]bool{}
		for _, ri := range base.ranges {
			if seenR[ri] {
				continue
			}
			seenR[ri] = true
			// positions: first, last (the checkpoint's predecessor), middle
			pos := map[uint64]bool{ri.start: true, ri.end - 1: true, (ri.start + ri.end - 1) / 2: true}
			for idx := range pos {
				if idx < ri.start || idx >= ri.end {
					continue
				}
				for _, where := range []string{"rest", "flight"} {
					fields := mutFields
					if where == "rest" {
						fields = append(append([]string{}, mutFields...), "index+1", "swap")
						if idx+1 < ri.end {
							fields = append(fields, "xchg") // this entry and the next one returned in each other's place
						}
					}
					for _, f := range fields {
						n++
						if *fNShards > 1 && n%*fNShards != *fShard {
							continue
						}
						if time.Now().After(deadline) {
							res.Exhaustive = false
							return
						}
						m := &core.Mutation{Where: where, Node: ri.node, Index: idx, Field: f}
						r := replayCluster(nodes, h, nil, m, true)
						res.Counts["evaluations"]++
						res.Counts["mutants"]++
						res.Counts["traces_validated"]++
						if r.panicMsg != "" {
							addF("C17", "panic/deadlock with mutation: "+r.panicMsg, h, m)
							continue
						}
						if r.diverged == 0 {
							// the mutation did not reach a verified range (e.g. entry never replicated in flight to the leader itself)
							res.Counts["mutants_without_effect"]++
							continue
						}
						res.Counts["distinct_nontrivial"]++
						for _, v := range r.viol {
							addF(v.Prop, v.Msg, h, m)
						}
					}
				}
			}
		}
	}
}

// twinSeqs visits every sequence of length 1..depth over the twin alphabet (which depends on the twin's
// first/last index, tracked by a tiny model).
func twinSeqs(depth int, goOn func() bool, visit func(cur []core.TOp)) {
	var rec func(cur []core.TOp, first, last uint64)
	rec = func(cur []core.TOp, first, last uint64) {
		if !goOn() {
			return
		}
		if len(cur) > 0 {
			visit(cur)
		}
		if len(cur) >= depth {
			return
		}
		for _, o := range twinAlphabet(first, last) {
			f, l := first, last
			switch o.K {
			case "A":
				if !o.Gap && o.CP != "foreign" && o.CP != "short" {
					if l == 0 {
						f = 1
					}
					l += uint64(o.N)
				}
			case "D":
				if l > 0 && o.Min <= l && o.Max >= f {
					if o.Min <= f {
						if o.Max >= l {
							f, l = 0, 0
						} else {
							f = o.Max + 1
						}
					} else if o.Max >= l {
						l = o.Min - 1
					}
				}
			}
			if l == 0 {
				f = 0
			}
			// after an emptying truncation the WAL accepts any index; the driver appends at last+1 = 1 again
			rec(append(append([]core.TOp{}, cur...), o), f, l)
		}
	}
	rec(nil, 0, 0)
}

func init() { engines["C18"] = runC18 }

func twinAlphabet(first, last uint64) []core.TOp {
	ops := []core.TOp{
		{K: "A", N: 1}, {K: "A", N: 2}, {K: "A", N: 1, Gap: true},
		{K: "A", N: 1, CP: "empty"}, {K: "A", N: 2, CP: "empty", CP2: true},
		{K: "A", N: 1, CP: "valid"}, {K: "A", N: 2, CP: "foreign"}, {K: "A", N: 1, CP: "short"},
		{K: "A", N: 1, CP: "empty", Fail: true}, {K: "A", N: 2, CP: "valid", Fail: true},
	}
	if last > 0 {
		ops = append(ops, core.TOp{K: "D", Min: first, Max: first}, core.TOp{K: "D", Min: last, Max: last}, core.TOp{K: "D", Min: first, Max: last})
		if last-first >= 2 {
			ops = append(ops, core.TOp{K: "D", Min: first + 1, Max: last - 1})
		}
		ops = append(ops, core.TOp{K: "D", Min: last + 1, Max: last + 3})
	}
	return ops
}

func runC18() *ShardResult {
	res := newResult()
	thorough := *fTier == "thorough"
	depth, bound, nCP := 5, 3, 4 // 4 checkpoints: one in the callback, one queued, two consecutive drops
	if thorough {
		depth, bound, nCP = 6, 4, 5
	}
	deadline := time.Now().Add(*fBudget * 2 / 3)
	res.Bounds["twin_depth"] = depth
	res.Bounds["preemption_bound"] = bound
	res.Bounds["checkpoints_in_blocked_report_scenario"] = nCP
	addF := func(msg, sig string, extra map[string]interface{}) {
		if len(res.Findings) < 40 {
			res.Findings = append(res.Findings, core.Finding{Prop: "C18", Engine: "twin", Msg: msg, Extra: extra, SigS: "C18|" + sig})
		}
	}
	// (a) twin sequences; the alphabet depends on the twin's first/last, tracked by a tiny model
	n := 0
	finals := map[string]bool{}
	twinSeqs(depth, func() bool {
		if time.Now().After(deadline) {
			res.Exhaustive = false
			return false
		}
		return true
	}, func(cur []core.TOp) {
		n++
		if *fNShards <= 1 || n%*fNShards == *fShard {
			r := core.RunTwin(cur, core.Config{SegSize: 200})
			res.Counts["evaluations"]++
			res.Counts["transitions"] += int64(len(cur))
			res.Counts["traces_validated"]++
			if r.Checkpoints > 0 {
				res.Counts["distinct_nontrivial"]++
			}
			finals[r.FinalSig] = true
			for _, v := range r.Viol {
				if v.Prop == "C16" {
					continue // reported by C16's own run of these sequences
				}
				addF(v.Msg, "twin|"+twinString(cur)+"|"+firstLine(v.Msg), map[string]interface{}{"ops": cur, "sequence": twinString(cur)})
			}
			if len(res.Samples) < 2 && len(cur) == depth && r.Dropped > 0 {
				res.Samples = append(res.Samples, map[string]interface{}{"sequence": twinString(cur), "result": r.FinalSig})
			}
		}
	})
	for k := range finals {
		res.Sets["states"] = append(res.Sets["states"], "twin:"+k)
	}
	// (b) blocked ReportFn, all schedules up to the bound
	for vi, open := range []bool{true, false, true} {
		open := open
		trunc := vi == 2
		st := &core.ExploreStats{}
		var last *core.BlockedResult
		nf := 0
		x := &core.Explorer{Bound: bound, Deadline: time.Now().Add(*fBudget / 9), Shard: *fShard, NShards: *fNShards, Stats: st,
			Run: func(ch vsched.Chooser) *vsched.Result {
				r, b := core.RunBlockedReportT(ch, nCP, open, trunc)
				last = b
				return r
			},
			Stop: func() bool { return nf >= 5 },
		}
		x.Check = func(prefix []int, r *vsched.Result) {
			st.Outcomes[last.History]++
			for _, v := range last.Viol {
				nf++
				addF(v.Msg, fmt.Sprintf("blocked|open=%v|trunc=%v|%s", open, trunc, firstLine(v.Msg)), map[string]interface{}{"gate_opens": open, "truncate_last": trunc, "schedule": append([]int(nil), prefix...), "checkpoints": nCP})
			}
		}
		x.Explore()
		res.Counts["evaluations"] += int64(st.Executions)
		res.Counts["schedules"] += int64(st.Executions)
		res.Counts["transitions"] += int64(st.Executions)
		res.Counts["traces_validated"] += int64(st.Executions)
		res.Counts["distinct_nontrivial"] += int64(len(st.Outcomes))
		for o := range st.Outcomes {
			res.Sets["states"] = append(res.Sets["states"], fmt.Sprintf("blocked(open=%v,trunc=%v):%s", open, trunc, o))
		}
		if !st.Complete {
			res.Exhaustive = false
		}
		if len(res.Samples) < 4 {
			res.Samples = append(res.Samples, map[string]interface{}{"scenario": fmt.Sprintf("writer stores %d checkpoints (then truncates and rewrites the last: %v) || runVerifier || ReportFn blocked on a gate (opens=%v)", nCP, trunc, open), "distinct_outcomes": len(st.Outcomes), "schedules": st.Executions})
		}
	}
	return res
}

func twinString(ops []core.TOp) string {
	s := ""
	for i, o := range ops {
		if i > 0 {
			s += " "
		}
		s += o.String()
	}
	return s
}

package main

import (
	"bytes"
	"fmt"
	"io"
	"math"
	"runtime/debug"
	"time"

	"github.com/hashicorp/raft"
	wal "github.com/hashicorp/raft-wal"

	"verif/harness/core"
	"verif/shim/vsched"
	"verif/simdisk"
)

func init() {
	engines["C12"] = func() *ShardResult {
		// scheduler part first: the enumeration part runs the WAL free (real goroutines), and a
		// free goroutine must never meet an installed scheduler
		total := *fBudget
		*fBudget = total / 2
		res := newResult()
		res.merge(runSched("C12"), "sched_")
		if *fShard == 0 {
			readFaultCases(res)
		}
		*fBudget = total
		res.merge(runCodec(), "")
		return res
	}
	engines["C15"] = func() *ShardResult {
		// concurrent reads of entries larger than the pooled read buffer first (scheduler part), then the size menu
		total := *fBudget
		*fBudget = total / 4
		res := newResult()
		res.merge(runSched("C15"), "sched_")
		*fBudget = total
		res.merge(runSizes(), "")
		return res
	}
}

// readFaultCases: GetLog with the k-th read of the segment file failing, for every k and entries below and above
// the pooled 64 KiB read buffer, on the tail and (after a reopen) on a sealed segment. A failed GetLog returns
// an error; afterwards every entry still reads back intact, also by two GetLogs one after the other holding
// their results (the shim's buffer pool panics when a buffer is released twice - with the real pool the next
// two readers would share it).
func readFaultCases(res *ShardResult) {
	sizes := []int{12, 66000, 70000, 140000}
	for _, sealed := range []bool{false, true} {
		seg := 1 << 20
		if sealed {
			seg = 4096
		}
		sys := core.Mount(simdisk.NewState(), core.Config{SegSize: seg})
		sys.Disk.NoLog = true
		var msgs []string
		vr := vsched.Run(vsched.DefaultChooser{}, 0, false, func() {
			if err := sys.Open(); err != nil {
				msgs = append(msgs, "INTERNAL open: "+err.Error())
				return
			}
			var want []*raft.Log
			for i, n := range sizes {
				l := core.MkLog(uint64(i+1), 2, n)
				c := *l
				want = append(want, &c)
				if err := sys.W.StoreLog(l); err != nil {
					msgs = append(msgs, "INTERNAL append: "+err.Error())
					return
				}
				vsched.Quiesce()
			}
			if sealed {
				if err := sys.Apply(core.Op{K: "R"}); err != nil {
					msgs = append(msgs, "INTERNAL reopen: "+err.Error())
					return
				}
				vsched.Quiesce()
			}
			d := sys.Disk
			d.FaultFileReads = true
			d.FaultKind = simdisk.FaultClean
			for _, l := range want {
				for k := 0; k < 6; k++ {
					before := d.FaultOps
					d.FaultAt, d.FaultHit = before+k, nil
					var g raft.Log
					err := sys.W.GetLog(l.Index, &g)
					hit := d.FaultHit != nil
					d.FaultAt = -1
					res.Counts["evaluations"]++
					res.Counts["read_fault_cases"]++
					if !hit {
						break // GetLog issues fewer than k+1 reads
					}
					res.Counts["distinct_nontrivial"]++
					if err == nil && sameLog(l, &g) != "" {
						msgs = append(msgs, fmt.Sprintf("GetLog(%d) (%d-byte payload, sealed=%v) with its read #%d failing returned nil and a different entry: %s", l.Index, len(l.Data), sealed, k+1, sameLog(l, &g)))
					}
					// afterwards: everything reads back, results held across the following reads
					held := make([]raft.Log, len(want))
					for i, w := range want {
						if e := sys.W.GetLog(w.Index, &held[i]); e != nil {
							msgs = append(msgs, fmt.Sprintf("after a GetLog(%d) whose read #%d failed (sealed=%v): GetLog(%d) fails: %v", l.Index, k+1, sealed, w.Index, e))
						}
					}
					for i, w := range want {
						if dd := sameLog(w, &held[i]); dd != "" && held[i].Index != 0 {
							msgs = append(msgs, fmt.Sprintf("after a GetLog(%d) whose read #%d failed (sealed=%v): the result of GetLog(%d) changed while later reads ran: %s", l.Index, k+1, sealed, w.Index, dd))
						}
					}
					if len(msgs) > 6 {
						return
					}
				}
			}
			sys.W.Close()
		})
		for _, p := range vr.Panics {
			msgs = append(msgs, fmt.Sprintf("panic (sealed=%v): %s\n%s", sealed, p.Val, trimRepoStack(p.Stack)))
		}
		sys.Unmount()
		for i, m := range msgs {
			if i < 4 && len(res.Findings) < 40 {
				res.Findings = append(res.Findings, core.Finding{Prop: "C12", Engine: "codec", Msg: m, Extra: map[string]interface{}{"case": "GetLog with a failing read", "sealed": sealed}, SigS: "C12|readfault|" + firstLine(m)})
			}
		}
	}
}

// idCodec is the default binary encoding under a caller-chosen codec ID.
type idCodec struct {
	id uint64
	wal.BinaryCodec
}

func (c *idCodec) ID() uint64 { return c.id }

func varintBoundaries() []uint64 {
	out := []uint64{0}
	for k := 1; k <= 9; k++ {
		out = append(out, (uint64(1)<<(7*uint(k)))-1, uint64(1)<<(7*uint(k)))
	}
	return append(out, math.MaxUint64)
}

func sizedBytes(n int, seed byte, mode int) []byte {
	switch mode {
	case 0:
		return nil
	case 1:
		return []byte{}
	}
	b := make([]byte, n)
	for i := range b {
		b[i] = seed + byte(i*13)
	}
	return b
}

type bytesCase struct {
	name string
	b    []byte
}

func bytesMenu(seed byte) []bytesCase {
	out := []bytesCase{{"nil", nil}, {"empty", []byte{}}}
	for _, n := range []int{1, 127, 128, 16383, 16384, 65535, 65536, 65537} {
		out = append(out, bytesCase{fmt.Sprint(n), sizedBytes(n, seed, 2)})
	}
	return out
}

type timeCase struct {
	name string
	t    time.Time
}

func timeMenu() []timeCase {
	base := time.Date(2022, 5, 6, 7, 8, 9, 123456789, time.UTC)
	return []timeCase{
		{"zero", time.Time{}},
		{"utc", base},
		{"+01:00", base.In(time.FixedZone("a", 3600))},
		{"-07:30", base.In(time.FixedZone("b", -7*3600-1800))},
		{"+00:00:30", base.In(time.FixedZone("c", 30))},
		{"monotonic", time.Now()},
		{"year1", time.Date(1, 1, 1, 0, 0, 1, 0, time.UTC)},
		{"year9999", time.Date(9999, 12, 31, 23, 59, 59, 999999999, time.UTC)},
	}
}

func sameLog(a, b *raft.Log) string {
	if a.Index != b.Index {
		return fmt.Sprintf("Index %d != %d", a.Index, b.Index)
	}
	if a.Term != b.Term {
		return fmt.Sprintf("Term %d != %d", a.Term, b.Term)
	}
	if a.Type != b.Type {
		return fmt.Sprintf("Type %d != %d", a.Type, b.Type)
	}
	if !bytes.Equal(a.Data, b.Data) {
		return fmt.Sprintf("Data differs (len %d vs %d)", len(a.Data), len(b.Data))
	}
	if !bytes.Equal(a.Extensions, b.Extensions) {
		return fmt.Sprintf("Extensions differ (len %d vs %d)", len(a.Extensions), len(b.Extensions))
	}
	if !a.AppendedAt.Equal(b.AppendedAt) {
		return fmt.Sprintf("AppendedAt %s != %s", a.AppendedAt, b.AppendedAt)
	}
	_, ao := a.AppendedAt.Zone()
	_, bo := b.AppendedAt.Zone()
	if ao != bo {
		return fmt.Sprintf("AppendedAt zone offset %d != %d", ao, bo)
	}
	return ""
}

func runCodec() *ShardResult {
	res := newResult()
	add := func(sig, msg string, extra map[string]interface{}) {
		if len(res.Findings) < 60 {
			res.Findings = append(res.Findings, core.Finding{Prop: "C12", Engine: "codec", Msg: msg, Extra: extra, SigS: "C12|codec|" + sig})
		}
	}
	vb := varintBoundaries()
	types := []raft.LogType{0, 1, 2, 127, 128, 255}
	tm := timeMenu()
	dm := bytesMenu(1)
	em := bytesMenu(77)
	res.Bounds["index_term_menu"] = len(vb)
	res.Bounds["type_menu"] = types
	res.Bounds["bytes_menu"] = []string{"nil", "empty", "1", "127", "128", "16383", "16384", "65535", "65536", "65537"}
	res.Bounds["time_menu"] = len(tm)
	codec := &wal.BinaryCodec{}
	n := 0
	outcomes := map[string]bool{}
	roundTrip := func(l *raft.Log, desc string) {
		n++
		if *fNShards > 1 && n%*fNShards != *fShard {
			return
		}
		res.Counts["evaluations"]++
		res.Counts["transitions"]++
		res.Counts["traces_validated"]++
		res.Counts["distinct_nontrivial"]++
		var buf bytes.Buffer
		if err := codec.Encode(l, &buf); err != nil {
			add("encode", fmt.Sprintf("Encode failed for %s: %v", desc, err), nil)
			return
		}
		enc := buf.Bytes()
		if want := core.EncodedSize(l); want != len(enc) {
			// the documented layout determines the length
			add("size", fmt.Sprintf("encoding of %s is %d bytes, documented layout gives %d", desc, len(enc), want), nil)
		}
		var got raft.Log
		shadow := append([]byte(nil), enc...)
		if err := codec.Decode(shadow, &got); err != nil {
			add("decode", fmt.Sprintf("Decode failed for %s: %v", desc, err), nil)
			return
		}
		if d := sameLog(l, &got); d != "" {
			add("roundtrip", fmt.Sprintf("round trip of %s: %s", desc, d), nil)
		}
		// the decoded log must not alias the input buffer
		for i := range shadow {
			shadow[i] ^= 0xff
		}
		if d := sameLog(l, &got); d != "" {
			add("alias", fmt.Sprintf("decoded log of %s changed when the input buffer was overwritten: %s", desc, d), nil)
		}
		// decoding another log into the same struct must not write into the slices of the first result
		kept := got
		other := &raft.Log{Index: l.Index + 1, Term: 9, Type: 3, AppendedAt: l.AppendedAt}
		// opposite shapes: where the first log had bytes the second has none and vice versa, so that a
		// field which Decode leaves alone when the encoding is empty would keep the first log's bytes
		if len(l.Data) == 0 {
			other.Data = []byte{0x5a, 0x5a, 0x5a}
		}
		if len(l.Extensions) == 0 {
			other.Extensions = []byte{0xa5, 0xa5}
		}
		var buf2 bytes.Buffer
		if err := codec.Encode(other, &buf2); err == nil {
			if err := codec.Decode(append([]byte(nil), buf2.Bytes()...), &got); err != nil {
				add("decode-reuse", fmt.Sprintf("Decode into a log that held %s failed: %v", desc, err), nil)
			} else {
				if d := sameLog(l, &kept); d != "" {
					add("alias-reuse", fmt.Sprintf("decoded log of %s changed when another log was decoded into the same struct: %s", desc, d), nil)
				}
				if d := sameLog(other, &got); d != "" {
					add("reuse-result", fmt.Sprintf("Decode into a struct that held %s: %s", desc, d), nil)
				}
			}
		}
		outcomes[fmt.Sprintf("len%d", len(enc)/4096)] = true
	}
	// full product of scalar fields with small payloads
	for _, idx := range vb {
		for _, term := range vb {
			for _, ty := range types {
				for _, t := range tm {
					l := &raft.Log{Index: idx, Term: term, Type: ty, Data: []byte("d"), AppendedAt: t.t}
					roundTrip(l, fmt.Sprintf("{Index:%d Term:%d Type:%d Data:1B time:%s}", idx, term, ty, t.name))
				}
			}
		}
	}
	// full product of byte-slice shapes and times
	for _, d := range dm {
		for _, e := range em {
			for _, t := range tm {
				l := &raft.Log{Index: 300, Term: 2, Type: raft.LogCommand, Data: d.b, Extensions: e.b, AppendedAt: t.t}
				roundTrip(l, fmt.Sprintf("{Data:%s Extensions:%s time:%s}", d.name, e.name, t.name))
			}
		}
	}
	if len(res.Samples) == 0 {
		res.Samples = append(res.Samples, "{Index:16383 Term:2097152 Type:128 Data:1B time:-07:30}", "{Data:65536 Extensions:nil time:monotonic}")
	}
	if *fShard == 0 {
		storeGetAndAlias(res, add, dm, em)
		codecIDs(res, add)
	}
	for o := range outcomes {
		res.Sets["states"] = append(res.Sets["states"], o)
	}
	return res
}

// storeGetAndAlias pushes byte-shape pairs through StoreLogs/GetLog across the
// 64 KiB pooled-buffer boundary and checks that retained results survive later
// reads that reuse the pooled buffers.
func storeGetAndAlias(res *ShardResult, add func(string, string, map[string]interface{}), dm, em []bytesCase) {
	sys := core.Mount(simdisk.NewState(), core.Config{SegSize: 400000})
	defer sys.Unmount()
	sys.Disk.NoLog = true
	if err := sys.Open(); err != nil {
		add("internal", "INTERNAL open: "+err.Error(), nil)
		return
	}
	defer func() {
		if sys.W != nil {
			sys.W.Close()
		}
	}()
	var want []*raft.Log
	idx := uint64(1)
	tmn := timeMenu()
	for i, d := range dm {
		for j, e := range em {
			if i > 3 && j > 3 && (i+j)%3 != 0 { // pairwise-style thinning of the big x big corner
				continue
			}
			l := &raft.Log{Index: idx, Term: uint64(i + 1), Type: raft.LogType(j), Data: d.b, Extensions: e.b, AppendedAt: tmn[(i+j)%len(tmn)].t}
			want = append(want, l)
			idx++
		}
	}
	for i := 0; i < len(want); i += 3 {
		j := i + 3
		if j > len(want) {
			j = len(want)
		}
		batch := make([]*raft.Log, 0, 3)
		for _, l := range want[i:j] {
			c := *l
			batch = append(batch, &c)
		}
		if err := sys.W.StoreLogs(batch); err != nil {
			add("store", fmt.Sprintf("StoreLogs of entries %d..%d failed: %v", i+1, j, err), nil)
			return
		}
	}
	check := func(phase string) {
		for _, l := range want {
			var g raft.Log
			res.Counts["evaluations"]++
			res.Counts["store_get_cases"]++
			if err := sys.W.GetLog(l.Index, &g); err != nil {
				add("get", fmt.Sprintf("%s: GetLog(%d) failed: %v", phase, l.Index, err), nil)
				continue
			}
			if d := sameLog(l, &g); d != "" {
				add("storeget", fmt.Sprintf("%s: StoreLogs then GetLog(%d) (Data %dB, Ext %dB): %s", phase, l.Index, len(l.Data), len(l.Extensions), d), nil)
			}
		}
	}
	check("same process")
	// aliasing: keep the result of GetLog(i), read j, compare i with a deep copy
	small := []uint64{1, 2, 3, 13, 14, 27, 55, 56}
	for _, i := range small {
		for _, j := range small {
			if int(i) > len(want) || int(j) > len(want) {
				continue
			}
			var gi, gj raft.Log
			if err := sys.W.GetLog(i, &gi); err != nil {
				continue
			}
			cp := gi
			cp.Data = append([]byte(nil), gi.Data...)
			cp.Extensions = append([]byte(nil), gi.Extensions...)
			sys.W.GetLog(j, &gj)
			sys.W.GetLog(j, &gj)
			res.Counts["evaluations"]++
			res.Counts["alias_pairs"]++
			if d := sameLog(&cp, &gi); d != "" {
				add("alias-getlog", fmt.Sprintf("log returned by GetLog(%d) changed after GetLog(%d): %s", i, j, d), nil)
			}
			// the same target struct used again: the caller kept the first result (a struct copy shares
			// the slices), the second read must not write into those slices
			var g raft.Log
			if err := sys.W.GetLog(i, &g); err != nil {
				continue
			}
			kept := g
			if err := sys.W.GetLog(j, &g); err != nil {
				continue
			}
			res.Counts["evaluations"]++
			res.Counts["alias_pairs"]++
			if d := sameLog(&cp, &kept); d != "" {
				add("alias-reuse", fmt.Sprintf("log returned by GetLog(%d) changed after GetLog(%d) into the same raft.Log: %s", i, j, d), nil)
			}
			if d := sameLog(want[j-1], &g); d != "" {
				add("alias-reuse-result", fmt.Sprintf("GetLog(%d) into a raft.Log that held the result of GetLog(%d): %s", j, i, d), nil)
			}
		}
	}
	if err := sys.Apply(core.Op{K: "R"}); err != nil {
		add("reopen", "reopen failed: "+err.Error(), nil)
		return
	}
	check("after reopen")
}

func codecIDs(res *ShardResult, add func(string, string, map[string]interface{})) {
	open := func(st *simdisk.State, c wal.Codec) (*core.Sys, error) {
		sys := core.Mount(st, core.Config{SegSize: 128})
		sys.Codec = c
		err := sys.Open()
		return sys, err
	}
	for _, id := range []uint64{0, 1, 65535} {
		res.Counts["evaluations"]++
		sys, err := open(simdisk.NewState(), &idCodec{id: id})
		if err == nil {
			add("reserved", fmt.Sprintf("Open accepted a custom codec with reserved ID %d", id), nil)
			sys.W.Close()
		}
		sys.Unmount()
	}
	for _, id := range []uint64{65536, 1 << 40} {
		res.Counts["evaluations"]++
		sys, err := open(simdisk.NewState(), &idCodec{id: id})
		if err != nil {
			add("custom-open", fmt.Sprintf("Open with custom codec ID %d failed: %v", id, err), nil)
			sys.Unmount()
			continue
		}
		// enough entries to rotate a few times
		ok := true
		for i := uint64(1); i <= 7; i++ {
			if err := sys.W.StoreLog(core.MkLog(i, 0, 4)); err != nil {
				add("custom-append", fmt.Sprintf("append with custom codec ID %d failed: %v", id, err), nil)
				ok = false
				break
			}
		}
		sys.W.Close()
		img := sys.Disk.Volatile()
		sys.Unmount()
		if !ok {
			continue
		}
		// same codec: must reopen and read back
		s2, err := open(img, &idCodec{id: id})
		if err != nil {
			add("custom-reopen", fmt.Sprintf("a WAL created with codec ID %d cannot be reopened with that same codec: %v", id, err), nil)
		} else {
			for i := uint64(1); i <= 7; i++ {
				var g raft.Log
				if err := s2.W.GetLog(i, &g); err != nil || !core.LogsEqual(&g, core.MkLog(i, 0, 4)) {
					add("custom-read", fmt.Sprintf("custom codec ID %d: entry %d not read back after reopen (err %v)", id, i, err), nil)
					break
				}
			}
			if err := s2.W.StoreLog(core.MkLog(8, 0, 4)); err != nil {
				add("custom-append2", fmt.Sprintf("custom codec ID %d: append after reopen failed: %v", id, err), nil)
			}
			s2.W.Close()
		}
		s2.Unmount()
		// different codec IDs must be refused
		for _, other := range []wal.Codec{nil, &idCodec{id: id + 1}} {
			res.Counts["evaluations"]++
			s3, err := open(img, other)
			if err == nil {
				name := "the default codec"
				if other != nil {
					name = fmt.Sprintf("codec ID %d", other.ID())
				}
				add("foreign-accepted", fmt.Sprintf("a directory written with codec ID %d was accepted by %s", id, name), nil)
				s3.W.Close()
			}
			s3.Unmount()
		}
	}
	// default codec directory refused by a custom codec
	sys, err := open(simdisk.NewState(), nil)
	if err == nil {
		sys.W.StoreLog(core.MkLog(1, 0, 4))
		sys.W.Close()
		img := sys.Disk.Volatile()
		s2, err := open(img, &idCodec{id: 70000})
		if err == nil {
			add("default-by-custom", "a directory written with the default codec was accepted by custom codec ID 70000", nil)
			s2.W.Close()
		}
		s2.Unmount()
	}
	sys.Unmount()
}

// ---------------------------------------------------------------------------
// C15: entry-size boundaries

func runSizes() *ShardResult {
	res := newResult()
	add := func(sig, msg string, extra map[string]interface{}) {
		if len(res.Findings) < 40 {
			res.Findings = append(res.Findings, core.Finding{Prop: "C15", Engine: "sizes", Msg: msg, Extra: extra, SigS: "C15|sizes|" + sig})
		}
	}
	const overhead = 20 + 3 // fixed part of the encoding for idx<128 plus length-prefix growth for large data (computed per case below)
	segSizes := []int{4096, 1 << 20}
	var sizes []int
	for s := 0; s <= 16; s++ {
		sizes = append(sizes, s)
	}
	for s := 64*1024 - 96; s <= 64*1024+16; s++ {
		sizes = append(sizes, s)
	}
	for s := 128*1024 - 64; s <= 128*1024+8; s++ {
		sizes = append(sizes, s) // the next power of two: buffers that grow by doubling
	}
	for _, seg := range segSizes {
		for d := -72; d <= 48; d += 4 {
			sizes = append(sizes, seg+d)
		}
	}
	positions := []string{"alone", "first", "middle", "last", "second"}
	res.Bounds["segment_sizes"] = segSizes
	res.Bounds["payload_sizes"] = fmt.Sprintf("0..16, 64Ki-96..64Ki+16, 128Ki-64..128Ki+8, seg-72..seg+48 step 4 (%d sizes), 64Mi neighbourhood on shard 0", len(sizes))
	res.Bounds["batch_positions"] = positions
	n := 0
	outcomes := map[string]bool{}
	if *fShard == 1%*fNShards {
		// runs under the scheduler: before any free-running WAL of this process exists
		hugeBatchThenClose(res, add)
	}
	if *fShard == 3%*fNShards {
		thinCodecCases(res, add) // under the scheduler as well
	}
	for _, seg := range segSizes {
		for _, sz := range sizes {
			for _, pos := range positions {
				n++
				if *fNShards > 1 && n%*fNShards != *fShard {
					continue
				}
				oc := sizeCase(res, add, seg, sz, pos)
				outcomes[fmt.Sprintf("seg%d:%s:%s", seg, pos, oc)] = true
			}
		}
	}
	if *fShard == 2%*fNShards {
		compositeCases(res, add)
	}

	if *fShard == 0 {
		big := []int{64<<20 - 64, 64<<20 - 23, 64<<20 - 22, 64<<20 - 1, 64 << 20, 64<<20 + 1}
		for _, sz := range big {
			for _, pos := range []string{"alone", "last"} {
				oc := sizeCase(res, add, 1<<20, sz, pos)
				outcomes[fmt.Sprintf("big:%s:%s", pos, oc)] = true
			}
		}
	}
	for o := range outcomes {
		res.Sets["states"] = append(res.Sets["states"], o)
	}
	res.Samples = append(res.Samples, map[string]interface{}{"segment": 4096, "payload": 65536 - 23, "position": "middle"}, map[string]interface{}{"segment": 1 << 20, "payload": 64 << 20, "position": "alone"})
	return res
}

// thinCodec encodes an entry as its Data bytes and nothing else (an external codec; ID outside the reserved
// range), so the encoded size of an entry is exactly len(Data): this reaches encoded sizes 0..19, which the
// built-in codec (at least 20 bytes per entry) never produces.
type thinCodec struct{}

func (thinCodec) ID() uint64 { return 70404 }
func (thinCodec) Encode(l *raft.Log, w io.Writer) error {
	_, err := w.Write(l.Data)
	return err
}
func (thinCodec) Decode(b []byte, l *raft.Log) error {
	l.Data = append([]byte(nil), b...)
	return nil
}

// thinCodecCases: encoded sizes 0..17 (every padding residue twice, the empty encoding included) alone and in
// batches, on a segment size that rotates and one that does not; whatever is acknowledged reads back with the
// same bytes from the tail, from sealed segments and after a reopen.
func thinCodecCases(res *ShardResult, add func(string, string, map[string]interface{})) {
	var shapes [][]int
	for n := 0; n <= 17; n++ {
		shapes = append(shapes, []int{n})
	}
	shapes = append(shapes, []int{3, 0, 5}, []int{0}, []int{8, 1, 0}, []int{0, 7}, []int{9, 16, 17}, []int{0, 0, 0})
	for _, seg := range []int{256, 1 << 20} {
		desc := map[string]interface{}{"segment_size": seg, "codec": "external, encoding = Data bytes only", "batches": shapes}
		res.Counts["evaluations"]++
		res.Counts["transitions"]++
		res.Counts["traces_validated"]++
		res.Counts["distinct_nontrivial"]++
		sys := core.Mount(simdisk.NewState(), core.Config{SegSize: seg})
		sys.Codec = thinCodec{}
		sys.Disk.NoLog = true
		var msgs []string
		vr := vsched.Run(vsched.DefaultChooser{}, 0, false, func() {
			if err := sys.Open(); err != nil {
				msgs = append(msgs, "INTERNAL open: "+err.Error())
				return
			}
			want := map[uint64][]byte{}
			next := uint64(1)
			check := func(phase string) {
				for idx := uint64(1); idx < next; idx++ {
					var g raft.Log
					if err := sys.W.GetLog(idx, &g); err != nil {
						msgs = append(msgs, fmt.Sprintf("%s: acknowledged entry %d with a %d-byte encoding is unreadable: %v", phase, idx, len(want[idx]), err))
					} else if !bytes.Equal(g.Data, want[idx]) {
						msgs = append(msgs, fmt.Sprintf("%s: entry %d (%d-byte encoding) read back as %x, stored %x", phase, idx, len(want[idx]), g.Data, want[idx]))
					}
				}
			}
			for _, sh := range shapes {
				var batch []*raft.Log
				for i, n := range sh {
					d := make([]byte, n)
					for k := range d {
						d[k] = byte(int(next)*7 + i*3 + k + 1)
					}
					batch = append(batch, &raft.Log{Index: next + uint64(i), Data: d})
				}
				if err := sys.W.StoreLogs(batch); err != nil {
					msgs = append(msgs, fmt.Sprintf("StoreLogs refused a batch with encoded sizes %v: %v", sh, err))
					return
				}
				vsched.Quiesce()
				for i, l := range batch {
					want[next+uint64(i)] = l.Data
				}
				next += uint64(len(batch))
				check(fmt.Sprintf("after the batch with encoded sizes %v", sh))
				if len(msgs) > 0 {
					return
				}
			}
			if err := sys.Apply(core.Op{K: "R"}); err != nil {
				msgs = append(msgs, "reopen failed: "+err.Error())
				return
			}
			vsched.Quiesce()
			check("after a clean reopen")
			sys.W.Close()
		})
		for _, p := range vr.Panics {
			msgs = append(msgs, "panic: "+p.Val)
		}
		sys.Unmount()
		for i, m := range msgs {
			if i < 4 {
				add("thin-codec|"+fmt.Sprint(seg)+"|"+m, fmt.Sprintf("segment %d, external codec whose encoding is the Data bytes: %s", seg, m), desc)
			}
		}
	}
}

// compositeCases: a batch whose earlier entries together exceed the writer's 64 KiB buffer and whose last
// entry is beyond the maximum size must be refused without side effects: what is appended afterwards is
// acknowledged, readable, and still there after a reopen.
func compositeCases(res *ShardResult, add func(string, string, map[string]interface{})) {
	mk := func(idx uint64, n int) *raft.Log {
		l := core.MkLog(idx, 5, 8)
		b := make([]byte, n)
		for i := 0; i < n; i += 251 {
			b[i] = byte(i>>2) + 3
		}
		l.Data = b
		return l
	}
	for _, pre := range []int{0, 1} {
		for _, shape := range [][]int{{40000, 40000}, {30000, 30000, 30000}, {65000, 100}} {
			func() {
				desc := map[string]interface{}{"committed_batches_before": pre, "entries_before_the_oversized_one": shape}
				res.Counts["evaluations"]++
				res.Counts["composite_refusal_cases"]++
				res.Counts["traces_validated"]++
				defer func() {
					if r := recover(); r != nil {
						add("composite-panic", fmt.Sprintf("refused oversized batch %v: panic %v", shape, r), desc)
					}
				}()
				sys := core.Mount(simdisk.NewState(), core.Config{SegSize: 1 << 20})
				defer sys.Unmount()
				sys.Disk.NoLog = true
				if err := sys.Open(); err != nil {
					return
				}
				next := uint64(1)
				var want []*raft.Log
				for i := 0; i < pre; i++ {
					l := mk(next, 8)
					if err := sys.W.StoreLog(l); err != nil {
						return
					}
					want = append(want, mk(next, 8))
					next++
				}
				var batch []*raft.Log
				for i, n := range shape {
					batch = append(batch, mk(next+uint64(i), n))
				}
				batch = append(batch, mk(next+uint64(len(shape)), 64<<20))
				if err := sys.W.StoreLogs(batch); err == nil {
					add("composite-accepted", fmt.Sprintf("a batch ending in a 64 MiB payload (encoding above the maximum) after %v was accepted", shape), desc)
					sys.W.Close()
					return
				}
				if l, _ := sys.W.LastIndex(); l != next-1 {
					add("composite-changed", fmt.Sprintf("refused batch %v + oversized entry left LastIndex at %d, want %d", shape, l, next-1), desc)
				}
				for i := 0; i < 2; i++ {
					l := mk(next, 8+i)
					if err := sys.W.StoreLog(l); err != nil {
						add("composite-next", fmt.Sprintf("append after the refused batch %v failed: %v", shape, err), desc)
						sys.W.Close()
						return
					}
					want = append(want, mk(next, 8+i))
					next++
				}
				check := func(phase string) {
					f, _ := sys.W.FirstIndex()
					l, _ := sys.W.LastIndex()
					if f != 1 || l != next-1 {
						add("composite-range", fmt.Sprintf("%s: after a refused batch %v + oversized entry and two acknowledged appends the log is [%d,%d], want [1,%d]", phase, shape, f, l, next-1), desc)
						return
					}
					for _, w := range want {
						var g raft.Log
						if err := sys.W.GetLog(w.Index, &g); err != nil {
							add("composite-read", fmt.Sprintf("%s: GetLog(%d) after a refused batch %v: %v", phase, w.Index, shape, err), desc)
						} else if d := sameLog(w, &g); d != "" {
							add("composite-altered", fmt.Sprintf("%s: entry %d after a refused batch %v: %s", phase, w.Index, shape, d), desc)
						}
					}
				}
				check("same process")
				if err := sys.Apply(core.Op{K: "R"}); err != nil {
					add("composite-reopen", fmt.Sprintf("reopen after a refused batch %v + oversized entry and two acknowledged appends failed: %v", shape, err), desc)
					return
				}
				check("after reopen")
				sys.W.Close()
			}()
		}
	}
}

type discard struct{}

func (discard) Write(p []byte) (int, error) { return len(p), nil }

var _ io.Writer = discard{}

func sizeCase(res *ShardResult, add func(string, string, map[string]interface{}), seg, sz int, pos string) (oc string) {
	defer func() {
		if r := recover(); r != nil {
			add("panic", fmt.Sprintf("a %d-byte payload (position %s, segment %d) makes the WAL panic: %v\n%s", sz, pos, seg, r, trimRepoStack(string(debug.Stack()))), map[string]interface{}{"segment_size": seg, "payload": sz, "position": pos})
			oc = "panic"
		}
	}()
	res.Counts["evaluations"]++
	res.Counts["transitions"]++
	res.Counts["traces_validated"]++
	res.Counts["distinct_nontrivial"]++
	desc := map[string]interface{}{"segment_size": seg, "payload": sz, "position": pos}
	sys := core.Mount(simdisk.NewState(), core.Config{SegSize: seg})
	defer sys.Unmount()
	sys.Disk.NoLog = true
	if err := sys.Open(); err != nil {
		add("internal", "INTERNAL open: "+err.Error(), desc)
		return "internal"
	}
	mk := func(idx uint64, n int) *raft.Log {
		l := core.MkLog(idx, 3, 8)
		if n != 8 {
			b := make([]byte, n)
			for i := 0; i < n; i += 509 {
				b[i] = byte(i>>3) + 1
			}
			if n > 0 {
				b[n-1] = 0xEE
			}
			l.Data = b
			if n == 0 {
				l.Data = nil
			}
		}
		return l
	}
	var batch []*raft.Log
	var target uint64
	var pre []*raft.Log
	switch pos {
	case "second":
		// its own batch, but not the first of the segment
		pre = []*raft.Log{mk(1, 8)}
		batch = []*raft.Log{mk(2, sz)}
		target = 2
	case "alone":
		batch = []*raft.Log{mk(1, sz)}
		target = 1
	case "first":
		batch = []*raft.Log{mk(1, sz), mk(2, 8), mk(3, 8)}
		target = 1
	case "middle":
		batch = []*raft.Log{mk(1, 8), mk(2, sz), mk(3, 8)}
		target = 2
	default:
		batch = []*raft.Log{mk(1, 8), mk(2, 8), mk(3, sz)}
		target = 3
	}
	var want []*raft.Log
	for _, l := range append(append([]*raft.Log{}, pre...), batch...) {
		c := *l
		want = append(want, &c)
	}
	if len(pre) > 0 {
		if e := sys.W.StoreLogs(pre); e != nil {
			add("internal", "INTERNAL first batch: "+e.Error(), desc)
			return "internal"
		}
	}
	err := sys.W.StoreLogs(batch)
	verify := func(phase string) bool {
		ok := true
		for _, l := range want {
			var g raft.Log
			if e := sys.W.GetLog(l.Index, &g); e != nil {
				add("unreadable", fmt.Sprintf("%s: StoreLogs acknowledged a %d-byte payload (position %s, segment %d) but GetLog(%d) fails: %v", phase, sz, pos, seg, l.Index, e), desc)
				ok = false
			} else if d := sameLog(l, &g); d != "" {
				add("altered", fmt.Sprintf("%s: entry %d of a batch with a %d-byte payload (position %s, segment %d) read back altered: %s", phase, l.Index, sz, pos, seg, d), desc)
				ok = false
			}
		}
		return ok
	}
	if err == nil {
		if !verify("same process") {
			sys.W.Close()
			return "ack-unreadable"
		}
		// one more batch after it, then reopen
		if e := sys.W.StoreLog(mk(uint64(len(want)+1), 8)); e != nil {
			add("next-append", fmt.Sprintf("append after a %d-byte entry (position %s, segment %d) failed: %v", sz, pos, seg, e), desc)
		} else {
			want = append(want, mk(uint64(len(want)+1), 8))
		}
		if e := sys.Apply(core.Op{K: "R"}); e != nil {
			add("reopen", fmt.Sprintf("reopen after storing a %d-byte entry (position %s, segment %d) failed: %v", sz, pos, seg, e), desc)
			return "reopen-failed"
		}
		verify("after reopen")
		sys.W.Close()
		_ = target
		return "stored"
	}
	// refused: only entries beyond the documented maximum may be refused, and the log must be unchanged
	tooBig := false
	for _, lg := range want {
		if core.EncodedSize(lg) > 64<<20 {
			tooBig = true
		}
	}
	if !tooBig {
		add("refused-valid", fmt.Sprintf("StoreLogs refused a batch whose largest entry (payload %d bytes, position %s, segment %d) is within the documented 64 MiB maximum: %v", sz, pos, seg, err), desc)
	}
	l, _ := sys.W.LastIndex()
	if l != uint64(len(pre)) {
		add("refused-changed", fmt.Sprintf("StoreLogs refused a %d-byte payload (%v) but LastIndex is %d", sz, err, l), desc)
	}
	sys.W.Close()
	return "refused"
}

// hugeBatchThenClose: one batch of several large entries (each well below the
// maximum, together more than a segment plus 64 MiB) seals the tail; the WAL is
// closed while the rotation is still queued, so the next Open goes through tail
// recovery of that sealed segment. Everything acknowledged must read back.
func hugeBatchThenClose(res *ShardResult, add func(string, string, map[string]interface{})) {
	type hc struct {
		seg   int
		sizes []int
		eager bool // the VFS reports io.EOF together with a full read that ends at the end of the file
	}
	big := []int{17 << 20, 17 << 20, 17 << 20, 17 << 20}
	cases := []hc{{4096, big, false}, {1 << 20, big, false}}
	// the same shape at small scale: the sealing batch makes the file end exactly at its commit frame (it
	// grows beyond the preallocated size), crosses it by little or by a whole segment, on both VFS flavours
	for _, eager := range []bool{false, true} {
		cases = append(cases, hc{4096, []int{5000}, eager}, hc{4096, []int{3900, 300}, eager}, hc{4096, []int{100, 9000, 8}, eager},
			hc{1 << 18, []int{253 << 10}, eager}, hc{1 << 18, []int{320 << 10}, eager}, hc{1 << 18, []int{70000, 70000, 70000, 70000}, eager})
	}
	for _, c := range cases {
		seg := c.seg
		res.Counts["evaluations"]++
		res.Counts["transitions"]++
		res.Counts["traces_validated"]++
		res.Counts["distinct_nontrivial"]++
		desc := map[string]interface{}{"segment_size": seg, "batch_payload_sizes": c.sizes, "eof_with_full_read": c.eager, "batch": "one sealing StoreLogs, Close before the rotation ran, reopen"}
		sys := core.Mount(simdisk.NewState(), core.Config{SegSize: seg, EagerEOF: c.eager})
		sys.Disk.NoLog = true
		mk := func(idx uint64, n int) *raft.Log {
			l := core.MkLog(idx, 4, 8)
			b := make([]byte, n)
			for i := 0; i < n; i += 4099 {
				b[i] = byte(i>>4) + 1
			}
			b[n-1] = 0xAB
			l.Data = b
			return l
		}
		want := []*raft.Log{core.MkLog(1, 0, 8)}
		for i, n := range c.sizes {
			want = append(want, mk(uint64(i+2), n))
		}
		nWant := uint64(len(want))
		var msgs []string
		vr := vsched.Run(vsched.DefaultChooser{}, 0, false, func() {
			if err := sys.Open(); err != nil {
				msgs = append(msgs, "INTERNAL open: "+err.Error())
				return
			}
			c0 := *want[0]
			if err := sys.W.StoreLog(&c0); err != nil {
				msgs = append(msgs, "small append failed: "+err.Error())
				return
			}
			vsched.Quiesce()
			var batch []*raft.Log
			for _, l := range want[1:] {
				c := *l
				batch = append(batch, &c)
			}
			if err := sys.W.StoreLogs(batch); err != nil {
				msgs = append(msgs, "huge batch refused: "+err.Error())
				return
			}
			// no Quiesce: the rotation goroutine has not run yet
			sys.W.Close()
			vsched.Quiesce()
			if err := sys.Open(); err != nil {
				msgs = append(msgs, "reopen failed: "+err.Error())
				return
			}
			vsched.Quiesce()
			li, _ := sys.W.LastIndex()
			if li != nWant {
				msgs = append(msgs, fmt.Sprintf("after a sealing batch with payloads %v was acknowledged, Close before the rotation and reopen: LastIndex = %d, want %d", c.sizes, li, nWant))
			}
			for _, l := range want {
				var g raft.Log
				if err := sys.W.GetLog(l.Index, &g); err != nil {
					msgs = append(msgs, fmt.Sprintf("acknowledged entry %d unreadable after reopen: %v", l.Index, err))
				} else if d := sameLog(l, &g); d != "" {
					msgs = append(msgs, fmt.Sprintf("acknowledged entry %d altered after reopen: %s", l.Index, d))
				}
			}
			sys.W.Close()
		})
		for _, p := range vr.Panics {
			msgs = append(msgs, "panic: "+p.Val)
		}
		sys.Unmount()
		for _, m := range msgs {
			add("huge-batch|"+fmt.Sprint(seg, c.sizes, c.eager)+"|"+m, fmt.Sprintf("segment %d, io.EOF with a full read at the end of a file: %v: %s", seg, c.eager, m), desc)
		}
	}
}

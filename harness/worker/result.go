package main

import (
	"verif/harness/core"
)

// ShardResult is what one worker process reports.
type ShardResult struct {
	Prop     string         `json:"prop"`
	Shard    int            `json:"shard"`
	Done     bool           `json:"done"`
	WallS    float64        `json:"wall_s"`
	Findings []core.Finding `json:"findings"`
	// additive counters (summed over shards)
	Counts map[string]int64 `json:"counts"`
	// max-merged counters
	Maxes map[string]int64 `json:"maxes"`
	// min-merged counters
	Mins map[string]int64 `json:"mins"`
	// set-merged (distinct counted after union)
	Sets map[string][]string `json:"sets"`
	// histogram-merged
	Hists      map[string]map[string]int64 `json:"hists"`
	Samples    []interface{}               `json:"samples"`
	Exhaustive bool                        `json:"exhaustive"`
	Notes      []string                    `json:"notes"`
	Bounds     map[string]interface{}      `json:"bounds"`
}

func newResult() *ShardResult {
	return &ShardResult{Counts: map[string]int64{}, Maxes: map[string]int64{}, Mins: map[string]int64{}, Sets: map[string][]string{}, Hists: map[string]map[string]int64{}, Bounds: map[string]interface{}{}, Exhaustive: true}
}

func (r *ShardResult) hist(name, key string, n int64) {
	if r.Hists[name] == nil {
		r.Hists[name] = map[string]int64{}
	}
	r.Hists[name][key] += n
}

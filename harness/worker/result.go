package main

import (
	"encoding/json"

	"verif/harness/core"
)

// ShardResult is what one worker process reports.
type ShardResult struct {
	Prop     string         `json:"prop"`
	Shard    int            `json:"shard"`
	Done     bool           `json:"done"`
	WallS    float64        `json:"wall_s"`
	Findings []core.Finding `json:"findings"`
	// additive counters (summed over shards)
	Counts map[string]int64 `json:"counts"`
	// max-merged counters
	Maxes map[string]int64 `json:"maxes"`
	// min-merged counters
	Mins map[string]int64 `json:"mins"`
	// set-merged (distinct counted after union)
	Sets map[string][]string `json:"sets"`
	// histogram-merged
	Hists      map[string]map[string]int64 `json:"hists"`
	Samples    []interface{}               `json:"samples"`
	Exhaustive bool                        `json:"exhaustive"`
	Notes      []string                    `json:"notes"`
	Bounds     map[string]interface{}      `json:"bounds"`
}

func newResult() *ShardResult {
	return &ShardResult{Counts: map[string]int64{}, Maxes: map[string]int64{}, Mins: map[string]int64{}, Sets: map[string][]string{}, Hists: map[string]map[string]int64{}, Bounds: map[string]interface{}{}, Exhaustive: true}
}

func (r *ShardResult) hist(name, key string, n int64) {
	if r.Hists[name] == nil {
		r.Hists[name] = map[string]int64{}
	}
	r.Hists[name][key] += n
}

// merge folds o into r (same-process combination of two engines).
func (r *ShardResult) merge(o *ShardResult, prefix string) {
	r.Findings = append(r.Findings, o.Findings...)
	for k, v := range o.Counts {
		switch k {
		case "evaluations", "transitions", "traces_validated", "distinct_nontrivial":
			r.Counts[k] += v
		default:
			r.Counts[prefix+k] += v
		}
	}
	for k, v := range o.Maxes {
		if v > r.Maxes[prefix+k] {
			r.Maxes[prefix+k] = v
		}
	}
	for k, v := range o.Mins {
		r.Mins[prefix+k] = v
	}
	for k, v := range o.Sets {
		if k == "states" || k == "nontrivial" {
			for _, x := range v {
				r.Sets[k] = append(r.Sets[k], prefix+x)
			}
		} else {
			r.Sets[prefix+k] = append(r.Sets[prefix+k], v...)
		}
	}
	for k, h := range o.Hists {
		for kk, v := range h {
			r.hist(prefix+k, kk, v)
		}
	}
	r.Samples = append(r.Samples, o.Samples...)
	r.Notes = append(r.Notes, o.Notes...)
	if !o.Exhaustive {
		r.Exhaustive = false
	}
	for k, v := range o.Bounds {
		r.Bounds[prefix+k] = v
	}
}

func jsonMarshal(v interface{}) ([]byte, error) { return json.Marshal(v) }

package main

import (
	"time"

	"verif/harness/core"
)

func init() {
	engines["C01"] = func() *ShardResult { return runCrash("C01") }
	engines["C02"] = func() *ShardResult {
		total := *fBudget
		*fBudget = total * 2 / 3
		res := newResult()
		res.merge(runCrash("C02"), "wal_")
		*fBudget = total / 3
		res.merge(runSegCrash(), "segment_")
		*fBudget = total
		return res
	}
	engines["C02SEG"] = runSegCrash // development: the segment-level part alone
	engines["C03"] = func() *ShardResult {
		res := runCrash("C03")
		if *fShard == 0 {
			initCrashImages(res)
		}
		return res
	}
	engines["C04"] = func() *ShardResult { return runCrash("C04") }
}

func genOf(m *core.Model, idx uint64) int { return len(m.Hist[idx]) }

func nextIdx(m *core.Model) []uint64 {
	if m.Last == 0 {
		if m.PrevLast > 0 && m.PrevLast+1 != 1 && m.PrevLast+1 != 5 {
			return []uint64{1, 5, m.PrevLast + 1}
		}
		return []uint64{1, 5}
	}
	return []uint64{m.Last + 1}
}

// alphabets --------------------------------------------------------------

func appendOps(m *core.Model, shapes [][]int) []core.Op {
	var out []core.Op
	for _, idx := range nextIdx(m) {
		for _, sh := range shapes {
			out = append(out, core.Op{K: "A", Idx: idx, Sizes: sh, Gen: genOf(m, idx)})
		}
	}
	return out
}

func delOps(m *core.Model, head, tail bool) []core.Op {
	var out []core.Op
	if m.Last == 0 {
		return nil
	}
	seen := map[[2]uint64]bool{}
	add := func(a, b uint64) {
		if a > b || seen[[2]uint64{a, b}] {
			return
		}
		seen[[2]uint64{a, b}] = true
		out = append(out, core.Op{K: "D", Min: a, Max: b})
	}
	mid := (m.First + m.Last) / 2
	if head {
		add(m.First, m.First)
		add(m.First, mid)
		add(m.First, m.Last)
	}
	if tail {
		add(m.Last, m.Last)
		add(mid+1, m.Last)
		if mid > m.First {
			add(mid, m.Last)
		}
	}
	return out
}

func runCrash(prop string) *ShardResult {
	res := newResult()
	thorough := *fTier == "thorough"
	cc := core.CrashCfg{ChunkCap: 1 << 13, Shard: *fShard, NShards: *fNShards, MaxFindings: 40}
	if thorough {
		cc.ChunkCap = 1 << 16
	}
	cfgs := []core.Config{{SegSize: 128}, {SegSize: 64}, {SegSize: 4096}}
	small := [][]int{{4}, {12}}
	full := [][]int{{4}, {12}, {4, 4}, {20, 4}}
	switch prop {
	case "C01":
		cc.Depth = 2
		cc.WorkLen = func(l int) int { return wlen([]int{0, 3, 1, 1}, l) }
		cc.Alpha = func(l int, m *core.Model) []core.Op {
			if l == 1 {
				ops := appendOps(m, full)
				ops = append(ops, delOps(m, true, true)...)
				return append(ops, core.Op{K: "R"})
			}
			return append(appendOps(m, small), delOps(m, false, true)...)
		}
	case "C02":
		cc.Depth = 3
		cc.WorkLen = func(l int) int { return wlen([]int{0, 2, 1, 1}, l) }
		cc.Alpha = func(l int, m *core.Model) []core.Op {
			if l == 1 {
				// a torn forced seal (tail truncation inside the tail) is a torn batch too
				return append(appendOps(m, full), delOps(m, false, true)...)
			}
			return appendOps(m, [][]int{{4}, {12}, {4, 4}})
		}
	case "C03":
		cc.Depth = 2
		cc.Cont = true
		cc.WorkLen = func(l int) int { return wlen([]int{0, 2, 1, 1}, l) }
		cc.Alpha = func(l int, m *core.Model) []core.Op {
			ops := appendOps(m, [][]int{{4}, {12}, {4, 4}})
			ops = append(ops, delOps(m, true, true)...)
			if l == 1 {
				ops = append(ops, core.Op{K: "S", Key: "k1", Val: []byte("a")}, core.Op{K: "R"})
			}
			return ops
		}
	case "C08":
		cc.Depth = 1
		cc.WorkLen = func(l int) int { return wlen([]int{0, 3, 1, 1}, l) }
		cc.Alpha = func(l int, m *core.Model) []core.Op {
			ops := []core.Op{{K: "S", Key: "k1", Val: []byte("a")}, {K: "S", Key: "k1", Nil: true}, {K: "U", Key: "k2", U64: 7}}
			ops = append(ops, appendOps(m, [][]int{{4, 4}})...)
			return append(ops, delOps(m, true, true)...)
		}
	case "C13":
		cc.Depth = 2
		cc.WorkLen = func(l int) int { return wlen([]int{0, 3, 1, 1}, l) }
		cc.Alpha = func(l int, m *core.Model) []core.Op {
			if l == 1 {
				ops := appendOps(m, [][]int{{4}, {4, 4, 4}})
				return append(ops, delOps(m, true, true)...)
			}
			return append(appendOps(m, small), delOps(m, true, true)...)
		}
	case "C04":
		cc.Depth = 2
		cc.WorkLen = func(l int) int { return wlen([]int{0, 3, 2, 1}, l) }
		cc.Alpha = func(l int, m *core.Model) []core.Op {
			if l == 1 {
				ops := appendOps(m, [][]int{{4}, {4, 4}, {12, 4, 4}})
				return append(ops, delOps(m, true, true)...)
			}
			ops := appendOps(m, small)
			return append(ops, delOps(m, true, true)...)
		}
	}
	if thorough {
		cc.Depth++
		wl := cc.WorkLen
		cc.WorkLen = func(l int) int { return wl(l) + 1 }
	}
	cc.ExpandPerClass = 3
	cc.Lazy = prop == "C01" || prop == "C02" || prop == "C03" || prop == "C04" || prop == "C13"
	res.Bounds["lazy_rotation_variant"] = cc.Lazy
	cc.ChunkCap = 1 << 10
	if thorough {
		cc.ExpandPerClass = 24
		cc.ChunkCap = 1 << 16
	}
	res.Bounds["expand_per_crashpoint_and_outcome"] = cc.ExpandPerClass
	res.Bounds["depth"] = cc.Depth
	res.Bounds["chunk_cap"] = cc.ChunkCap
	res.Bounds["configs"] = cfgs
	var wl []int
	for l := 1; l <= cc.Depth; l++ {
		wl = append(wl, cc.WorkLen(l))
	}
	res.Bounds["workload_len_per_level"] = wl
	start := time.Now()
	for ci, cfg := range cfgs {
		st := &core.CrashStats{}
		cc.Deadline = start.Add(*fBudget * time.Duration(ci+1) / time.Duration(len(cfgs)))
		e := core.NewCrashEngine(cc, cfg, st)
		e.Run()
		res.Findings = append(res.Findings, e.Findings...)
		res.Counts["workloads"] += int64(st.Workloads)
		res.Counts["crash_points"] += int64(st.CrashPoints)
		res.Counts["images_checked"] += int64(st.Images)
		res.Counts["recoveries_run"] += int64(st.Recoveries)
		res.Counts["states_expanded"] += int64(st.ExpandedStates)
		res.Counts["crash_points_capped"] += int64(st.CappedPoints)
		res.Counts["frontier_left"] += int64(st.FrontierLeft)
		if int64(st.MaxPending) > res.Maxes["max_images_at_one_point"] {
			res.Maxes["max_images_at_one_point"] = int64(st.MaxPending)
		}
		for h := range st.ImgHashes {
			res.Sets["states"] = append(res.Sets["states"], cfgName(cfg)+":"+h[:14])
		}
		for h := range st.TornHashes {
			res.Sets["nontrivial"] = append(res.Sets["nontrivial"], cfgName(cfg)+":"+h[:14])
		}
		res.Counts["transitions"] += int64(st.Images)
		res.Counts["evaluations"] += int64(st.Images)
		res.Counts["traces_validated"] += int64(st.Workloads + st.Recoveries)
		for k, v := range st.Outcomes {
			res.hist("recovery_outcomes", k, int64(v))
		}
		for k, v := range st.PerLevel {
			res.hist("images_per_level", string(rune('0'+k)), int64(v))
		}
		res.Mins["levels_completed_"+cfgName(cfg)] = int64(st.LevelsDone)
		if st.DeadlineHit || st.CappedPoints > 0 || st.LevelsDone < cc.Depth {
			res.Exhaustive = false
		}
		res.Samples = append(res.Samples, st.Samples...)
	}
	return res
}

func cfgName(c core.Config) string {
	if c.EagerEOF {
		return "seg" + itoa(c.SegSize) + "eof"
	}
	return "seg" + itoa(c.SegSize)
}

func itoa(i int) string {
	if i == 0 {
		return "0"
	}
	s := ""
	for i > 0 {
		s = string(rune('0'+i%10)) + s
		i /= 10
	}
	return s
}

// runSegCrash: the segment-level variant (payloads of 0/8/16 bytes, frames of
// 1-3 chunks) nested deep.
func runSegCrash() *ShardResult {
	res := newResult()
	depth := 4
	if *fTier == "thorough" {
		depth = 6
	}
	bigKids, bigStride := 2, [6]int{251, 2048, 2039, 251, 4096, 1021}
	if *fTier == "thorough" {
		bigKids, bigStride = 24, [6]int{61, 1024, 509, 127, 2048, 509}
	}
	st := &core.SegCrashStats{}
	cfg := core.SegCrashCfg{BigKids: bigKids, BigStride: bigStride, Depth: depth, Shapes: [][]int{{0}, {8}, {16}, {0, 0}, {8, 0}, {0, 16}, {16, 8, 0}}, Deadline: time.Now().Add(*fBudget), Shard: *fShard, NShards: *fNShards, MaxFindings: 30}
	e := core.NewSegCrashEngine(cfg, st)
	e.Run()
	res.Findings = e.Findings
	res.Bounds["depth"] = depth
	res.Bounds["batch_shapes_payload_bytes"] = cfg.Shapes
	res.Bounds["large_out_of_order_batch"] = "{204800,100,100} after a committed batch, crash with the whole write pending: prefixes, every range of blocks missing / alone landed, single chunks missing; below the images that lost it (beginning missing first), one-entry batches ending at each stale frame boundary, same families"
	res.Bounds["large_out_of_order_strides_chunks_prefix_block_hole_level1_level2"] = bigStride
	res.Bounds["large_out_of_order_images_expanded_per_shard"] = bigKids
	res.Counts["batches_recorded"] = int64(st.Batches)
	res.Counts["states_expanded"] = int64(st.States)
	res.Counts["recoveries_run"] = int64(st.Recoveries)
	res.Counts["transitions"] = int64(st.Images)
	res.Counts["evaluations"] = int64(st.Images)
	res.Counts["traces_validated"] = int64(st.Recoveries + st.Batches)
	for h := range st.ImgHashes {
		res.Sets["states"] = append(res.Sets["states"], "seg:"+h[:14])
	}
	for h := range st.Torn {
		res.Sets["nontrivial"] = append(res.Sets["nontrivial"], "seg:"+h[:14])
	}
	for k, v := range st.Outcomes {
		res.hist("recovery_outcomes", k, int64(v))
	}
	res.Mins["levels_completed"] = int64(st.LevelsDone)
	if st.DeadlineHit || st.LevelsDone < depth {
		res.Exhaustive = false
	}
	res.Samples = st.Samples
	return res
}

// wlen indexes a per-level table, repeating the last entry for deeper levels.
func wlen(t []int, l int) int {
	if l >= len(t) {
		return t[len(t)-1]
	}
	return t[l]
}

package core

import (
	"encoding/json"
	"fmt"
	"sync/atomic"

	"github.com/hashicorp/raft-wal/types"

	"verif/shim/vsched"
	"verif/simdisk"
)

// SimMeta is a types.MetaStore on a simulated disk: CommitState and SetStable
// are single atomic durable operations (what bbolt promises). State is
// round-tripped through encoding/json exactly like metadb does.
type SimMeta struct {
	D        *simdisk.Disk
	closed   atomic.Bool
	Loads    atomic.Int32
	Closes   atomic.Int32
	CloseErr bool // Close reports an error (the store is closed all the same)
}

func NewSimMeta(d *simdisk.Disk) *SimMeta { return &SimMeta{D: d} }

func (m *SimMeta) Load(dir string) (types.PersistentState, error) {
	var st types.PersistentState
	vsched.Yield("meta:load")
	m.Loads.Add(1)
	m.closed.Store(false)
	raw, err := m.D.MetaLoad()
	if err != nil {
		return st, err
	}
	if raw == nil {
		return st, nil
	}
	if err := json.Unmarshal(raw, &st); err != nil {
		return st, fmt.Errorf("%w: failed to parse persisted state: %s", types.ErrCorrupt, err)
	}
	return st, nil
}

func (m *SimMeta) CommitState(st types.PersistentState) error {
	vsched.Yield("meta:commit")
	if m.closed.Load() {
		return fmt.Errorf("simmeta: commit on closed store")
	}
	b, err := json.Marshal(st)
	if err != nil {
		return err
	}
	return m.D.MetaCommit(b)
}

func (m *SimMeta) GetStable(key []byte) ([]byte, error) {
	vsched.Yield("meta:get")
	if m.closed.Load() {
		return nil, fmt.Errorf("simmeta: get on closed store")
	}
	return m.D.StableGetF(string(key))
}

func (m *SimMeta) SetStable(key, value []byte) error {
	vsched.Yield("meta:set")
	if m.closed.Load() {
		return fmt.Errorf("simmeta: set on closed store")
	}
	return m.D.StableSet(string(key), value)
}

func (m *SimMeta) Close() error {
	vsched.Yield("meta:close")
	m.closed.Store(true)
	m.Closes.Add(1)
	if m.CloseErr {
		return fmt.Errorf("simmeta: injected close error")
	}
	return nil
}

// DecodeMeta parses a raw metadata record.
func DecodeMeta(raw []byte) (types.PersistentState, error) {
	var st types.PersistentState
	if raw == nil {
		return st, nil
	}
	err := json.Unmarshal(raw, &st)
	return st, err
}

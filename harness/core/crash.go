package core

import (
	"fmt"
	"sort"
	"strings"
	"time"

	"verif/shim/vsched"
	"verif/simdisk"
)

// ---------------------------------------------------------------------------
// Oracle for a recovered crash image (DESIGN appendix B).

// CheckRecovery compares what a reopened WAL shows with the models that are
// legal at the crash point. inflight is the kind of the call that was in
// progress ("" if none).
func CheckRecovery(o *Obs, legal []*Model, inflight string) []Violation {
	var vs []Violation
	add := func(p, f string, a ...interface{}) { vs = append(vs, Violation{Prop: p, Msg: fmt.Sprintf(f, a...)}) }
	if o.OpenErr != "" {
		add("C03", "Open failed after crash: %s", o.OpenErr)
		if inflight == "D" {
			add("C04", "a crash during DeleteRange left a directory that cannot be opened (neither applied nor not applied): %s", o.OpenErr)
		} else {
			for _, m := range legal {
				if m.Deleted {
					add("C04", "after an acknowledged DeleteRange a crash left a directory that cannot be opened (the truncation does not stay applied): %s", o.OpenErr)
					break
				}
			}
		}
		for _, m := range legal {
			if len(m.Acked) > 0 {
				add("C01", "Open failed after crash with acknowledged entries in the log: %s", o.OpenErr)
				break
			}
		}
		return vs
	}
	if o.IdxErr != "" {
		add("C03", "index query failed after recovery: %s", o.IdxErr)
		return vs
	}
	vs = append(vs, CompareStable(o, legal)...)
	for _, m := range legal {
		if len(CompareExact(o, m, "")) == 0 {
			return vs
		}
	}
	// no legal model matches: classify
	lo, hi := o.Lo, o.Lo+uint64(len(o.Entries))
	perIndexOK := true
	for i := lo; i < hi; i++ {
		got := o.Entry(i)
		wants := map[string]bool{}
		allSame := true
		var w0 string
		for k, m := range legal {
			w := NF
			if m.Last > 0 && i >= m.First && i <= m.Last {
				w = Fingerprint(m.E[i])
			}
			if k == 0 {
				w0 = w
			} else if w != w0 {
				allSame = false
			}
			wants[w] = true
		}
		if wants[got] {
			continue
		}
		perIndexOK = false
		hist := legal[0].Hist[i]
		inHist := false
		for _, h := range hist {
			if h == got {
				inHist = true
			}
		}
		switch {
		case allSame && w0 != NF:
			// the entry must be there
			switch {
			case inHist:
				if legal[0].Truncated[i] {
					add("C04", "index %d: recovered an older generation %s instead of %s (history %v)", i, got, w0, hist)
				}
				add("C02", "index %d: recovered stale content %s, most recent submitted is %s", i, got, w0)
			case legal[0].Acked[i]:
				add("C01", "index %d: acknowledged entry %s lost or altered after recovery (got %s)", i, w0, got)
			default:
				add("C02", "index %d: entry %s shown by an earlier recovery is gone or altered (got %s)", i, w0, got)
			}
		default:
			if got == NF || strings.HasPrefix(got, "ERR:") {
				if i >= o.First && i <= o.Last && o.Last > 0 {
					add("C02", "index %d inside [FirstIndex,LastIndex]=[%d,%d] is not readable: %s", i, o.First, o.Last, got)
				} else if allSame {
					add("C02", "index %d: got %s want %s", i, got, w0)
				} else {
					// entry optional (in-flight) and absent: fine on its own
					perIndexOK = perIndexOK || false
				}
			} else if inHist {
				if legal[0].Truncated[i] {
					add("C04", "index %d: an entry of a truncated-away generation is back: %s (legal %v)", i, got, keys(wants))
				}
				add("C02", "index %d: returned content of an earlier, superseded or never-acknowledged generation: %s (legal %v)", i, got, keys(wants))
			} else {
				add("C02", "index %d: returned content that was never (completely) written: %s (legal %v)", i, got, keys(wants))
			}
		}
	}
	pairOK := false
	for _, m := range legal {
		if o.First == m.First && o.Last == m.Last {
			pairOK = true
		}
	}
	if !pairOK {
		switch {
		case inflight == "D":
			add("C04", "interrupted DeleteRange left FirstIndex/LastIndex=%d/%d, neither old nor new (%s)", o.First, o.Last, legalPairs(legal))
		default:
			bracket := true
			for i := range legal[0].Acked {
				if _, ok := legal[len(legal)-1].E[i]; ok && (i < o.First || i > o.Last) {
					bracket = false
				}
			}
			if !bracket {
				add("C01", "FirstIndex/LastIndex=%d/%d do not bracket the acknowledged entries (%s)", o.First, o.Last, legalPairs(legal))
			} else {
				add("C02", "FirstIndex/LastIndex=%d/%d match no legal state (%s)", o.First, o.Last, legalPairs(legal))
			}
		}
	} else if perIndexOK && len(vs) == 0 {
		// every index is individually legal, first/last pair is legal, but the whole is a mixture
		if inflight == "D" {
			add("C04", "interrupted DeleteRange partly applied: observed %s, legal %s", o.Sig(), legalSigs(legal))
		} else {
			add("C02", "in-flight batch half-applied: observed %s, legal %s", o.Sig(), legalSigs(legal))
		}
	}
	if len(vs) == 0 {
		add("C02", "recovered state matches no legal model: observed %s, legal %s", o.Sig(), legalSigs(legal))
	}
	return vs
}

func keys(m map[string]bool) []string {
	var ks []string
	for k := range m {
		ks = append(ks, k)
	}
	sort.Strings(ks)
	return ks
}

func legalPairs(ms []*Model) string {
	var ss []string
	for _, m := range ms {
		ss = append(ss, fmt.Sprintf("%d/%d", m.First, m.Last))
	}
	return strings.Join(ss, " or ")
}

func legalSigs(ms []*Model) string {
	var ss []string
	for _, m := range ms {
		ss = append(ss, m.Sig())
	}
	return strings.Join(ss, " | ")
}

// ---------------------------------------------------------------------------
// Sessions: one Open + ops on a mounted image, run under the scheduler's
// default schedule so that background work is deterministic.

type SessionResult struct {
	Disk     *simdisk.Disk
	OpenErr  error
	OpenObs  *Obs     // observation right after Open
	Models   []*Model // Models[0] after open (rebased), Models[i] after op i
	Errs     []error  // per op
	ObsAfter []*Obs   // per op (if observeEach)
	Viol     []Violation
	LogLen   int
	Sched    *vsched.Result
	FinalObs *Obs
}

// rangeHit reports whether the DeleteRange op actually removed something according to the model history
// (models[len-2] is the state before it, models[len-1] after).
func rangeHit(models []*Model, op Op) bool {
	if len(models) < 2 {
		return false
	}
	before, after := models[len(models)-2], models[len(models)-1]
	return before.First != after.First || before.Last != after.Last
}

// SessionOpts controls RunSession.
type SessionOpts struct {
	ObserveEach bool // observe after every op and compare with the model (attributed to prop CmpProp)
	CmpProp     string
	Legal       []*Model // legal models for the state right after Open (nil: none checked, model = observation)
	Inflight    string
	Base        *Model // history (Hist/Acked) carried into the rebased model
	CloseAtEnd  bool
	Fault       func(d *simdisk.Disk) // optional: configure fault injection before Open
	MaxSteps    int
	Lazy        bool                                              // do not wait for background work between ops: the next call is issued while a rotation may still be pending
	Sys         *Sys                                              // run on this (already mounted, e.g. real-filesystem) system instead of mounting st
	AfterStep   func(i int, op Op, err error, s *Sys) []Violation // extra per-step oracle (i = 0 for Open)
}

// RunSession mounts st, opens the WAL, checks the recovery oracle, applies ops.
func RunSession(st *simdisk.State, cfg Config, ops []Op, so SessionOpts) *SessionResult {
	sys := so.Sys
	if sys == nil {
		sys = Mount(st, cfg)
		defer sys.Unmount()
	}
	r := &SessionResult{Disk: sys.Disk}
	if so.Fault != nil && sys.Disk != nil {
		so.Fault(sys.Disk)
	}
	d := &markDisk{sys.Disk}
	body := func() {
		d.Mark(simdisk.OpCall, 0, "open")
		err := sys.Open()
		d.Mark(simdisk.OpAck, 0, fmt.Sprint(err))
		vsched.Quiesce()
		if so.AfterStep != nil {
			r.Viol = append(r.Viol, so.AfterStep(0, Op{K: "open"}, err, sys)...)
		}
		if err != nil {
			r.OpenErr = err
			r.OpenObs = &Obs{OpenErr: err.Error()}
			if so.Legal != nil {
				r.Viol = append(r.Viol, CheckRecovery(r.OpenObs, so.Legal, so.Inflight)...)
			}
			r.LogLen = d.LogLen()
			return
		}
		var hf, hl uint64
		for _, m := range so.Legal {
			if m.Last > hl {
				hl = m.Last
			}
			if m.First > 0 && (hf == 0 || m.First < hf) {
				hf = m.First
			}
		}
		o := sys.Observe(hf, hl)
		r.OpenObs = o
		if so.Legal != nil {
			r.Viol = append(r.Viol, CheckRecovery(o, so.Legal, so.Inflight)...)
		}
		if raw := sys.MetaRaw(); true {
			if exp, err := ExpectedListing(raw); err == nil {
				if !sameStrings(exp, o.Listing) {
					r.Viol = append(r.Viol, Violation{Prop: "C13", Msg: fmt.Sprintf("directory after Open holds %v, metadata lists %v", o.Listing, exp)})
				}
			}
		}
		m := ModelFromObs(o, so.Base)
		r.Models = append(r.Models, m)
		prevListed, _ := ExpectedListing(sys.MetaRaw())
		prevMeta, _ := DecodeMeta(sys.MetaRaw())
		for i, op := range ops {
			nm := m.Clone()
			reject := ApplyModel(nm, op)
			if reject {
				nm = m.Clone()
			}
			d.Mark(simdisk.OpCall, i+1, op.K)
			err := sys.Apply(op)
			d.Mark(simdisk.OpAck, i+1, fmt.Sprint(err))
			if !so.Lazy || i == len(ops)-1 {
				vsched.Quiesce()
			}
			r.Errs = append(r.Errs, err)
			if so.AfterStep != nil {
				r.Viol = append(r.Viol, so.AfterStep(i+1, op, err, sys)...)
			}
			if reject && err == nil {
				r.Viol = append(r.Viol, Violation{Prop: so.CmpProp, Msg: fmt.Sprintf("op %d %s must be rejected but returned nil", i+1, op)})
			}
			if !reject && err != nil {
				r.Viol = append(r.Viol, Violation{Prop: so.CmpProp, Msg: fmt.Sprintf("op %d %s returned error: %v", i+1, op, err)})
				// the implementation refused: keep the model where it was so the
				// recording stays meaningful, and stop the workload here
				r.Models = append(r.Models, m.Clone())
				break
			}
			m = nm
			r.Models = append(r.Models, m)
			if sys.W == nil {
				break
			}
			if so.ObserveEach {
				ob := sys.Observe(m.First, m.Last)
				r.ObsAfter = append(r.ObsAfter, ob)
				for _, v := range CompareExact(ob, m, so.CmpProp) {
					v.Msg = fmt.Sprintf("after op %d %s: %s", i+1, op, v.Msg)
					r.Viol = append(r.Viol, v)
				}
				for _, v := range CompareStable(ob, []*Model{m}) {
					v.Msg = fmt.Sprintf("after op %d %s: %s", i+1, op, v.Msg)
					r.Viol = append(r.Viol, v)
				}
				if exp, err := ExpectedListing(sys.MetaRaw()); err == nil {
					switch op.K {
					case "R":
						// after Open: exactly the files of live segments
						if !sameStrings(exp, ob.Listing) {
							r.Viol = append(r.Viol, Violation{Prop: "C13", Msg: fmt.Sprintf("after op %d %s: directory holds %v, metadata lists %v", i+1, op, ob.Listing, exp)})
						}
					case "D":
						// after DeleteRange (no reader is in flight here): files of segments it removed are gone
						live := map[string]bool{}
						for _, n := range exp {
							live[n] = true
						}
						for _, n := range prevListed {
							if !live[n] {
								for _, h := range ob.Listing {
									if h == n {
										r.Viol = append(r.Viol, Violation{Prop: "C13", Msg: fmt.Sprintf("after op %d %s returned, the file %s of a segment it removed is still in the directory %v", i+1, op, n, ob.Listing)})
									}
								}
							}
						}
					}
					prevListed = exp
				}
				// independent of what the new metadata says: a sealed segment that lay wholly inside the range an
				// accepted DeleteRange removed must be gone from the directory (no reader is in flight here)
				if op.K == "D" && err == nil && !reject && op.Min <= op.Max {
					for k, sg := range prevMeta.Segments {
						if k == len(prevMeta.Segments)-1 || sg.SealTime.IsZero() || sg.MaxIndex < sg.MinIndex {
							continue // the tail is handled by the implementation's own bookkeeping clauses above
						}
						if sg.MinIndex >= op.Min && sg.MaxIndex <= op.Max && rangeHit(r.Models, op) {
							name := fmt.Sprintf("%020d-%016x.wal", sg.BaseIndex, sg.ID)
							for _, h := range ob.Listing {
								if h == name {
									r.Viol = append(r.Viol, Violation{Prop: "C13", Msg: fmt.Sprintf("after op %d %s returned, the file %s of a sealed segment holding [%d,%d], wholly inside the deleted range, is still in the directory %v", i+1, op, name, sg.MinIndex, sg.MaxIndex, ob.Listing)})
								}
							}
						}
					}
				}
				if st, e := DecodeMeta(sys.MetaRaw()); e == nil {
					prevMeta = st
				}
			}
		}
		r.LogLen = d.LogLen()
		for _, m := range sys.CreateViol {
			r.Viol = append(r.Viol, Violation{Prop: "C07", Msg: m})
		}
		if sys.Disk != nil && len(sys.Disk.CreateExist) > 0 {
			r.Viol = append(r.Viol, Violation{Prop: "C13", Msg: fmt.Sprintf("segment creation collided with an existing file: %v", sys.Disk.CreateExist)})
		}
		if so.CloseAtEnd && sys.W != nil {
			if err := sys.W.Close(); err != nil {
				r.Viol = append(r.Viol, Violation{Prop: so.CmpProp, Msg: "Close: " + err.Error()})
			}
			vsched.Quiesce()
			if sys.Disk != nil && sys.Disk.OpenHandles != 0 {
				r.Viol = append(r.Viol, Violation{Prop: "C14", Msg: fmt.Sprintf("%d file handles still open after Close returned (no call in flight)", sys.Disk.OpenHandles)})
			}
		} else if sys.W != nil {
			sys.W.Close()
		}
	}
	r.Sched = vsched.Run(vsched.DefaultChooser{}, so.MaxSteps, false, body)
	for _, p := range r.Sched.Panics {
		r.Viol = append(r.Viol, Violation{Prop: "PANIC", Msg: fmt.Sprintf("panic in %s: %s\n%s", p.Thread, p.Val, trimStack(p.Stack))})
	}
	if r.Sched.Deadlock {
		r.Viol = append(r.Viol, Violation{Prop: "DEADLOCK", Msg: fmt.Sprintf("deadlock: %v", r.Sched.Blocked)})
	}
	if r.Sched.StepLimit {
		r.Viol = append(r.Viol, Violation{Prop: "HANG", Msg: "step limit reached"})
	}
	if r.LogLen == 0 {
		r.LogLen = d.LogLen()
	}
	return r
}

// markDisk forwards markers to the simulated disk, if there is one.
type markDisk struct{ d *simdisk.Disk }

func (m *markDisk) Mark(k simdisk.OpKind, call int, note string) {
	if m.d != nil {
		m.d.Mark(k, call, note)
	}
}

func (m *markDisk) LogLen() int {
	if m.d == nil {
		return 0
	}
	return m.d.LogLen()
}

func trimStack(s string) string {
	lines := strings.Split(s, "\n")
	var out []string
	for _, l := range lines {
		if strings.Contains(l, "raft-wal") || strings.Contains(l, "/repo/") || strings.Contains(l, ".work/overlay") {
			out = append(out, strings.TrimSpace(l))
		}
		if len(out) >= 12 {
			break
		}
	}
	return strings.Join(out, "\n")
}

func sameStrings(a, b []string) bool {
	if len(a) != len(b) {
		return false
	}
	for i := range a {
		if a[i] != b[i] {
			return false
		}
	}
	return true
}

// ---------------------------------------------------------------------------
// Crash points of a recorded log.

type CrashPoint struct {
	K        int    // log[:K] executed (for run variants: the run's Lo)
	Variant  string // "" or a run-variant label
	Acked    int    // index of last acknowledged call (0 = open)
	Inflight int    // call in flight, -1 if none
	model    *simdisk.Replay
}

// CrashPoints lists every distinct (disk state, strictest legal set)
// combination of a log, in log order.
func CrashPoints(base *simdisk.State, baseIno map[string]int, log []simdisk.Op) []CrashPoint {
	var out []CrashPoint
	r := simdisk.NewReplay(base, baseIno)
	acked, inflight := -1, -1
	steps := simdisk.Steps(log)
	// group: positions between two mutating steps share a disk state
	type cand struct{ acked, inflight int }
	var group []cand
	flush := func(k int) {
		if len(group) == 0 {
			return
		}
		var quiet []cand
		seen := map[int]bool{}
		for _, c := range group {
			if c.inflight < 0 && !seen[c.acked] {
				seen[c.acked] = true
				quiet = append(quiet, c)
			}
		}
		if len(quiet) == 0 {
			quiet = []cand{group[0]}
		}
		for _, c := range quiet {
			out = append(out, CrashPoint{K: k, Acked: c.acked, Inflight: c.inflight, model: r.Clone()})
		}
		group = group[:0]
	}
	group = append(group, cand{acked, inflight})
	for _, s := range steps {
		if s.Run {
			flush(s.Lo)
			models, labels := simdisk.RunVariants(r, log[s.Lo:s.Hi])
			for i, m := range models {
				out = append(out, CrashPoint{K: s.Lo, Variant: labels[i], Acked: acked, Inflight: inflight, model: m})
			}
			for _, o := range log[s.Lo:s.Hi] {
				r.Apply(o)
			}
			group = append(group, cand{acked, inflight})
			continue
		}
		o := log[s.Lo]
		if o.Kind.Mutating() {
			flush(s.Lo)
			r.Apply(o)
			group = append(group, cand{acked, inflight})
			continue
		}
		switch o.Kind {
		case simdisk.OpCall:
			inflight = o.Call
		case simdisk.OpAck:
			acked = o.Call
			inflight = -1
		}
		group = append(group, cand{acked, inflight})
	}
	flush(len(log))
	return out
}

// ---------------------------------------------------------------------------
// The explicit-state search over durable disk images.

type PathStep struct {
	Ops     []Op   `json:"ops"`
	K       int    `json:"crash_before_log_index"`
	Variant string `json:"variant,omitempty"`
	Img     string `json:"image_hash"`
	ImgDesc string `json:"image_desc"`
	Pending string `json:"pending"`
	Lazy    bool   `json:"lazy_rotation,omitempty"`
}

type Finding struct {
	Prop   string                 `json:"property"`
	Msg    string                 `json:"msg"`
	Engine string                 `json:"engine"`
	Cfg    Config                 `json:"config"`
	Path   []PathStep             `json:"path"`
	Ops    []Op                   `json:"final_ops,omitempty"`
	Obs    string                 `json:"observed,omitempty"`
	Legal  string                 `json:"legal,omitempty"`
	Depth  int                    `json:"depth"`
	Extra  map[string]interface{} `json:"extra,omitempty"`
	SigS   string                 `json:"sig"`
}

// Sig identifies a finding for the known-findings list: property, engine and
// the minimal history with images abstracted to their pending summary.
func (f *Finding) Sig() string {
	var b strings.Builder
	fmt.Fprintf(&b, "%s|%s|seg=%d", f.Prop, f.Engine, f.Cfg.SegSize)
	for _, p := range f.Path {
		fmt.Fprintf(&b, "|%s@%d%s", OpsString(p.Ops), p.K, p.Variant)
	}
	if len(f.Ops) > 0 {
		fmt.Fprintf(&b, "|then %s", OpsString(f.Ops))
	}
	return b.String()
}

type CrashCfg struct {
	Cfgs           []Config
	Depth          int                            // crash nesting depth
	WorkLen        func(level int) int            // max workload length at a level (1-based)
	Alpha          func(level int, m *Model) []Op // alphabet at a level for a model
	Cont           bool                           // run the writability continuation on every recovered image
	ChunkCap       int
	Deadline       time.Time
	Shard          int
	NShards        int
	Lazy           bool // record every workload of two or more ops a second time without waiting for the background rotation between calls
	ExpandPerClass int  // per crash point and recovery outcome: expand the N images with fewest non-landed items and the N with fewest landed items (0 = all)
	MaxFindings    int
	// LeafHook, if set, runs on every distinct recovered image whose Open succeeded (m = what the recovery
	// showed); its violations are reported with the path that produced the image.
	LeafHook func(st *simdisk.State, cfg Config, m *Model) []Violation
}

type LeafRes struct {
	reopenViol []string
	obs        *Obs
	openErr    string
	model      *Model
	contViol   []Violation
	contOps    []Op
	panicV     []Violation
}

type CrashStats struct {
	Workloads      int             `json:"workloads_recorded"`
	CrashPoints    int             `json:"crash_points"`
	Images         int             `json:"images_checked"`
	DistinctImages int             `json:"distinct_images"`
	Recoveries     int             `json:"recoveries_run"`
	ExpandedStates int             `json:"states_expanded"`
	CappedPoints   int             `json:"crash_points_capped"`
	PerLevel       map[int]int     `json:"images_per_level"`
	LevelsDone     int             `json:"levels_completed"`
	DeadlineHit    bool            `json:"deadline_hit"`
	FrontierLeft   int             `json:"frontier_left"`
	Outcomes       map[string]int  `json:"distinct_recovery_outcomes"`
	MaxPending     int             `json:"max_images_at_one_point"`
	Samples        []interface{}   `json:"-"`
	ImgHashes      map[string]bool `json:"-"`
	TornHashes     map[string]bool `json:"-"`
}

type node struct {
	st      *simdisk.State
	model   *Model
	path    []PathStep
	level   int // number of crashes so far
	created map[string]bool
}

type CrashEngine struct {
	C        CrashCfg
	Cfg      Config
	Stats    *CrashStats
	Findings []Finding
	cache    map[string]*LeafRes
	expanded map[string]bool
	findSig  map[string]bool
}

func NewCrashEngine(c CrashCfg, cfg Config, st *CrashStats) *CrashEngine {
	if st.PerLevel == nil {
		st.PerLevel = map[int]int{}
		st.Outcomes = map[string]int{}
		st.ImgHashes = map[string]bool{}
		st.TornHashes = map[string]bool{}
	}
	return &CrashEngine{C: c, Cfg: cfg, Stats: st, cache: map[string]*LeafRes{}, expanded: map[string]bool{}, findSig: map[string]bool{}}
}

func (e *CrashEngine) addFinding(f Finding) {
	f.Engine = "crash"
	f.Cfg = e.Cfg
	s := f.Sig()
	if e.findSig[s] {
		return
	}
	e.findSig[s] = true
	f.SigS = s
	e.Findings = append(e.Findings, f)
}

func (e *CrashEngine) tooMany() bool {
	return e.C.MaxFindings > 0 && len(e.Findings) >= e.C.MaxFindings
}

// leaf recovers an image (cached): Open, observe, optional continuation.
func (e *CrashEngine) leaf(st *simdisk.State) *LeafRes {
	h := st.Hash()
	if lr, ok := e.cache[h]; ok {
		return lr
	}
	e.Stats.Recoveries++
	lr := &LeafRes{}
	// Open, observe, clean Close, Open, observe: what a recovery shows must not
	// change when the recovered WAL is simply reopened.
	sr := RunSession(st, e.Cfg, []Op{{K: "R"}}, SessionOpts{CloseAtEnd: true, ObserveEach: true, CmpProp: "REOPEN"})
	lr.obs = sr.OpenObs
	for _, v := range sr.Viol {
		if v.Prop == "REOPEN" {
			lr.reopenViol = append(lr.reopenViol, v.Msg)
		}
	}
	if lr.obs == nil {
		lr.obs = &Obs{OpenErr: "no observation (panic?)"}
	}
	for _, v := range sr.Viol {
		if v.Prop == "PANIC" || v.Prop == "DEADLOCK" || v.Prop == "HANG" || v.Prop == "C13" {
			lr.panicV = append(lr.panicV, v)
		}
	}
	if sr.OpenErr == nil && len(sr.Models) > 0 {
		lr.model = sr.Models[0]
		if e.C.Cont {
			lr.contOps, lr.contViol = e.continuation(st, lr.model)
		}
		if e.C.LeafHook != nil && len(lr.reopenViol) == 0 && len(lr.panicV) == 0 {
			lr.panicV = append(lr.panicV, e.C.LeafHook(st, e.Cfg, lr.model)...)
			e.Stats.Recoveries++
		}
	}
	e.cache[h] = lr
	return lr
}

// continuation: the recovered WAL must accept an append at LastIndex+1 (any
// index when empty), a stable write, a tail and a head truncation and clean
// reopen cycles, each with durable effect.
func (e *CrashEngine) continuation(st *simdisk.State, m0 *Model) ([]Op, []Violation) {
	m := m0.Clone()
	next := func() uint64 {
		if m.Last == 0 {
			return 7
		}
		return m.Last + 1
	}
	var ops []Op
	push := func(o Op) { ops = append(ops, o); ApplyModel(m, o) }
	push(Op{K: "A", Idx: next(), Sizes: []int{4}, Gen: 900})
	push(Op{K: "S", Key: "k2", Val: []byte("c")})
	push(Op{K: "R"})
	push(Op{K: "A", Idx: next(), Sizes: []int{12, 4}, Gen: 901})
	push(Op{K: "D", Min: m.Last, Max: m.Last})
	push(Op{K: "A", Idx: next(), Sizes: []int{4}, Gen: 902})
	push(Op{K: "D", Min: m.First, Max: m.First})
	push(Op{K: "R"})
	sr := RunSession(st, e.Cfg, ops, SessionOpts{ObserveEach: true, CmpProp: "C03", CloseAtEnd: true})
	e.Stats.Recoveries++
	var vs []Violation
	for _, v := range sr.Viol {
		if v.Prop == "PANIC" || v.Prop == "DEADLOCK" || v.Prop == "HANG" {
			v.Msg = "in continuation after recovery: " + v.Msg
		}
		vs = append(vs, v)
	}
	return ops, vs
}

// Run explores from the empty directory.
func (e *CrashEngine) Run() {
	root := &node{st: simdisk.NewState(), model: NewModel(), level: 0, created: map[string]bool{}}
	frontier := []*node{root}
	for level := 1; level <= e.C.Depth && len(frontier) > 0; level++ {
		var next []*node
		complete := true
		for ni, n := range frontier {
			if time.Now().After(e.C.Deadline) || e.tooMany() {
				e.Stats.DeadlineHit = !e.tooMany()
				e.Stats.FrontierLeft += len(frontier) - ni
				complete = false
				break
			}
			kids := e.expand(n, level)
			next = append(next, kids...)
		}
		if complete {
			e.Stats.LevelsDone = level
		} else {
			return
		}
		frontier = next
	}
	e.Stats.FrontierLeft += 0
}

// workloads enumerates all op sequences up to maxLen over the level's alphabet.
func (e *CrashEngine) workloads(level int, m *Model, maxLen int, fn func(ops []Op)) {
	var rec func(cur []Op, mm *Model)
	rec = func(cur []Op, mm *Model) {
		if len(cur) > 0 || level > 1 {
			// the empty workload (Open only) matters below level 1: its crash
			// points are the I/O steps of recovery itself
			fn(append([]Op(nil), cur...))
		}
		if len(cur) >= maxLen {
			return
		}
		for _, o := range e.C.Alpha(level, mm) {
			nm := mm.Clone()
			if ApplyModel(nm, o) {
				continue
			}
			rec(append(cur, o), nm)
		}
	}
	rec(nil, m)
}

func (e *CrashEngine) expand(n *node, level int) []*node {
	h := n.st.Hash()
	if e.expanded[h] {
		return nil
	}
	e.expanded[h] = true
	e.Stats.ExpandedStates++
	var kids []*node
	wi := 0
	e.workloads(level, n.model, e.C.WorkLen(level), func(ops []Op) {
		wi++
		if level == 1 && e.C.NShards > 1 && wi%e.C.NShards != e.C.Shard {
			return
		}
		if time.Now().After(e.C.Deadline) || e.tooMany() {
			e.Stats.DeadlineHit = true
			return
		}
		kids = append(kids, e.crashWorkload(n, level, ops)...)
	})
	return kids
}

// crashWorkload records Open+ops on n's image and checks every crash image.
func (e *CrashEngine) crashWorkload(n *node, level int, ops []Op) []*node {
	kids := e.crashWorkloadMode(n, level, ops, false)
	if e.C.Lazy && len(ops) >= 2 {
		kids = append(kids, e.crashWorkloadMode(n, level, ops, true)...)
	}
	return kids
}

func (e *CrashEngine) crashWorkloadMode(n *node, level int, ops []Op, lazy bool) []*node {
	e.Stats.Workloads++
	sr := RunSession(n.st, e.Cfg, ops, SessionOpts{ObserveEach: true, CmpProp: "C05", Base: n.model, Lazy: lazy})
	for _, v := range sr.Viol {
		if level > 1 && v.Prop == "C05" {
			// a valid operation refused (or answered wrongly) by a WAL that was recovered from a crash image
			v.Prop = "C03"
		}
		e.addFinding(Finding{Prop: v.Prop, Msg: "while recording (no crash in this segment): " + v.Msg, Path: n.path, Ops: ops, Depth: level - 1})
	}
	if sr.OpenErr != nil || len(sr.Models) == 0 {
		return nil
	}
	created := n.created
	log := sr.Disk.Log[:sr.LogLen]
	for _, v := range CheckIDAllocation(n.st.Meta, log) {
		e.addFinding(Finding{Prop: v.Prop, Msg: v.Msg, Path: n.path, Ops: ops, Depth: level - 1})
	}
	cps := CrashPoints(n.st, sr.Disk.BaseIno, log)
	var kids []*node
	seenKid := map[string]bool{}
	for _, cp := range cps {
		if time.Now().After(e.C.Deadline) || e.tooMany() {
			e.Stats.DeadlineHit = true
			break
		}
		e.Stats.CrashPoints++
		var legal []*Model
		inflight := ""
		ai := cp.Acked
		if ai < 0 {
			ai = 0 // crash inside Open: what Open would show is the node's own model
		}
		if ai >= len(sr.Models) {
			ai = len(sr.Models) - 1
		}
		legal = append(legal, sr.Models[ai])
		if cp.Inflight > 0 && cp.Inflight < len(sr.Models) {
			legal = append(legal, sr.Models[cp.Inflight])
			inflight = ops[cp.Inflight-1].K
		} else if cp.Inflight > 0 {
			// op in flight whose model was never recorded (it failed while recording)
			inflight = ops[cp.Inflight-1].K
		} else if cp.Inflight == 0 {
			inflight = "open"
		}
		pend := cp.model.PendingSummary()
		cnt := 0
		var cands []kidCand
		n2, exh := cp.model.Enumerate(e.C.ChunkCap, func(img *simdisk.State, info simdisk.ImageInfo) bool {
			cnt++
			e.Stats.Images++
			e.Stats.PerLevel[level]++
			ih := img.Hash()
			if !e.Stats.ImgHashes[ih] {
				e.Stats.ImgHashes[ih] = true
				e.Stats.DistinctImages++
			}
			if info.Dropped > 0 && info.Landed > 0 {
				e.Stats.TornHashes[ih] = true
			}
			lr := e.leaf(img)
			step := PathStep{Ops: ops, K: cp.K, Variant: cp.Variant, Img: ih, ImgDesc: info.Desc, Pending: pend, Lazy: lazy}
			path := append(append([]PathStep(nil), n.path...), step)
			vs := CheckRecovery(lr.obs, legal, inflight)
			for _, m := range lr.reopenViol {
				msg := "the state shown by the recovery does not survive a clean reopen: " + m
				switch {
				case inflight == "D":
					vs = append(vs, Violation{Prop: "C04", Msg: msg})
				case len(legal[0].Acked) > 0:
					vs = append(vs, Violation{Prop: "C01", Msg: msg})
				}
				vs = append(vs, Violation{Prop: "C02", Msg: msg}, Violation{Prop: "C03", Msg: msg})
			}
			vs = append(vs, lr.panicV...)
			vs = append(vs, lr.contViol...)
			for _, v := range vs {
				f := Finding{Prop: v.Prop, Msg: v.Msg, Path: path, Obs: lr.obs.Sig(), Legal: legalSigs(legal), Depth: level}
				if strings.HasPrefix(v.Msg, "after op") || strings.HasPrefix(v.Msg, "op ") || strings.HasPrefix(v.Msg, "in continuation") {
					f.Ops = lr.contOps
				}
				e.addFinding(f)
			}
			e.Stats.Outcomes[outcomeKey(lr.obs)]++
			if len(e.Stats.Samples) < 4 && info.Dropped > 0 && info.Landed > 0 {
				e.Stats.Samples = append(e.Stats.Samples, map[string]interface{}{"config": e.Cfg, "path": path, "recovered": lr.obs.Sig(), "legal": legalSigs(legal)})
			}
			if len(vs) == 0 && level < e.C.Depth && lr.model != nil && !seenKid[ih] && !e.expanded[ih] {
				prev := legal[0].Clone()
				prev.Hist = legal[len(legal)-1].Hist
				cm := ModelFromObs(lr.obs, prev)
				cands = append(cands, kidCand{n: &node{st: img, model: cm, path: path, level: level, created: created}, class: lr.obs.Sig(), dropped: info.Dropped, landed: info.Landed, h: ih})
			}
			return !e.tooMany()
		})
		_ = n2
		for _, c := range selectKids(cands, e.C.ExpandPerClass) {
			if !seenKid[c.h] {
				seenKid[c.h] = true
				kids = append(kids, c.n)
			}
		}
		if cnt > e.Stats.MaxPending {
			e.Stats.MaxPending = cnt
		}
		if !exh {
			e.Stats.CappedPoints++
		}
	}
	return kids
}

func outcomeKey(o *Obs) string {
	if o.OpenErr != "" {
		return "openerr"
	}
	return fmt.Sprintf("[%d,%d]", o.First, o.Last)
}

type kidCand struct {
	n       *node
	class   string
	dropped int
	landed  int
	h       string
}

// selectKids bounds the branching of the search below a crash point: per
// recovery outcome it keeps the N images closest to "everything landed" and
// the N closest to "nothing landed" (deviation bounding). N = 0 keeps all.
func selectKids(c []kidCand, n int) []kidCand {
	if n <= 0 {
		return c
	}
	by := map[string][]kidCand{}
	var order []string
	for _, k := range c {
		if _, ok := by[k.class]; !ok {
			order = append(order, k.class)
		}
		by[k.class] = append(by[k.class], k)
	}
	var out []kidCand
	for _, cl := range order {
		ks := by[cl]
		pick := map[string]bool{}
		sort.SliceStable(ks, func(i, j int) bool { return ks[i].dropped < ks[j].dropped })
		for i := 0; i < len(ks) && i < n; i++ {
			if !pick[ks[i].h] {
				pick[ks[i].h] = true
				out = append(out, ks[i])
			}
		}
		sort.SliceStable(ks, func(i, j int) bool { return ks[i].landed < ks[j].landed })
		for i := 0; i < len(ks) && i < n; i++ {
			if !pick[ks[i].h] {
				pick[ks[i].h] = true
				out = append(out, ks[i])
			}
		}
	}
	return out
}

// CheckIDAllocation walks the metadata commits of a log: a segment that
// appears for the first time must carry an ID that no earlier commit had
// already handed out (ID >= previous NextSegmentID), and NextSegmentID must
// stay above every listed ID.
func CheckIDAllocation(baseMeta []byte, log []simdisk.Op) []Violation {
	var vs []Violation
	prev, err := DecodeMeta(baseMeta)
	if err != nil {
		return nil
	}
	for _, o := range log {
		if o.Kind != simdisk.OpMetaCommit {
			continue
		}
		cur, err := DecodeMeta(o.Data)
		if err != nil {
			vs = append(vs, Violation{Prop: "C13", Msg: "unparsable metadata commit: " + err.Error()})
			continue
		}
		old := map[uint64]bool{}
		for _, s := range prev.Segments {
			old[s.ID] = true
		}
		seen := map[uint64]bool{}
		for _, s := range cur.Segments {
			if seen[s.ID] {
				vs = append(vs, Violation{Prop: "C13", Msg: fmt.Sprintf("segment ID %d listed twice in one metadata commit", s.ID)})
			}
			seen[s.ID] = true
			if !old[s.ID] && s.ID < prev.NextSegmentID {
				vs = append(vs, Violation{Prop: "C13", Msg: fmt.Sprintf("new segment reuses ID %d (NextSegmentID was already %d)", s.ID, prev.NextSegmentID)})
			}
			if s.ID >= cur.NextSegmentID {
				vs = append(vs, Violation{Prop: "C13", Msg: fmt.Sprintf("segment ID %d not below NextSegmentID %d", s.ID, cur.NextSegmentID)})
			}
		}
		if cur.NextSegmentID < prev.NextSegmentID {
			vs = append(vs, Violation{Prop: "C13", Msg: fmt.Sprintf("NextSegmentID went backwards %d -> %d", prev.NextSegmentID, cur.NextSegmentID)})
		}
		prev = cur
	}
	return vs
}

// ReplayCrashStep re-records one level of a crash path on image st and returns
// the recorded crash image (found by position and content hash) together with
// the model a recovery of it is rebased on.
func ReplayCrashStep(st *simdisk.State, cfg Config, ps PathStep, base *Model) (*simdisk.State, *Model, error) {
	sr := RunSession(st, cfg, ps.Ops, SessionOpts{ObserveEach: true, CmpProp: "C05", Base: base, Lazy: ps.Lazy})
	if sr.OpenErr != nil || len(sr.Models) == 0 {
		return nil, nil, fmt.Errorf("recording failed: open error %v", sr.OpenErr)
	}
	log := sr.Disk.Log[:sr.LogLen]
	for _, cp := range CrashPoints(st, sr.Disk.BaseIno, log) {
		if cp.K != ps.K || cp.Variant != ps.Variant {
			continue
		}
		var found *simdisk.State
		cp.model.Enumerate(1<<20, func(img *simdisk.State, info simdisk.ImageInfo) bool {
			if img.Hash() == ps.Img {
				found = img
				return false
			}
			return true
		})
		if found != nil {
			ai := cp.Acked
			if ai < 0 {
				ai = 0
			}
			if ai >= len(sr.Models) {
				ai = len(sr.Models) - 1
			}
			return found, sr.Models[ai], nil
		}
	}
	return nil, nil, fmt.Errorf("image %s not found at log index %d (the tree under test records a different I/O sequence)", ps.Img, ps.K)
}

package core

import (
	"bytes"
	"fmt"
	"sort"
	"strings"
	"time"

	"github.com/hashicorp/raft-wal/fs"
	"github.com/hashicorp/raft-wal/segment"
	"github.com/hashicorp/raft-wal/types"

	"verif/shim/vsched"
	"verif/simdisk"
)

// Segment-level crash search: drives segment.Filer (real writer, reader and
// recovery over the real fs package on the simulated OS) alone, with raw
// payloads of 0, 8 and 16 bytes. Frames are 1-3 chunks, so every crash point
// has few images and the nesting of crash / recover / append cycles can go
// deep: this is the narrowest seam that reaches recoverTail's handling of stale
// frames left behind by earlier torn batches.

type SegCrashCfg struct {
	Depth       int
	Shapes      [][]int // batch shapes (payload sizes)
	Deadline    time.Time
	Shard       int
	NShards     int
	MaxFindings int
	BigKids     int // level-1 images of the out-of-order large batch expanded per shard
	// out-of-order families, in chunks: level 1 prefix stride, range unit, single-hole stride; the same for level 2
	BigStride [6]int
}

type SegCrashStats struct {
	States      int
	Images      int
	Recoveries  int
	Batches     int
	LevelsDone  int
	DeadlineHit bool
	Outcomes    map[string]int
	ImgHashes   map[string]bool
	Torn        map[string]bool
	Samples     []interface{}
}

type segStep struct {
	Shape []int  `json:"batch"`
	K     int    `json:"crash_before_log_index"`
	Img   string `json:"image_hash"`
	Desc  string `json:"image_desc"`
}

type segNode struct {
	st      *simdisk.State
	entries [][]byte // committed payloads as shown by the last recovery
	path    []segStep
	gen     int
}

// SizeLimit is the size the file is preallocated to, and every crash image is as long as the file: 4 KiB for
// the small-payload search (at most 6 batches of 3 frames), 256 KiB while the large batches run.
var segInfo = types.SegmentInfo{ID: 7, BaseIndex: 1, MinIndex: 1, SizeLimit: 4096, Codec: 0}

func segPayload(idx uint64, gen, size int) []byte {
	b := make([]byte, size)
	for i := range b {
		b[i] = byte(int(idx)*13 + gen*41 + i + 1)
	}
	return b
}

type segObs struct {
	err     string
	entries [][]byte
}

// segRecover opens the tail with the real recovery and reads everything back.
func segRecover(st *simdisk.State) (*segObs, *simdisk.Disk) {
	o := &segObs{}
	mountSeq++
	d := simdisk.NewDisk(fmt.Sprintf("s%d", mountSeq), st)
	dir := simdisk.Register(d)
	defer simdisk.Unregister(d)
	res := vsched.Run(vsched.DefaultChooser{}, 0, false, func() {
		f := segment.NewFiler(dir, fs.New())
		var w types.SegmentWriter
		var err error
		if _, ok := st.Files[segment.FileName(segInfo)]; ok {
			w, err = f.RecoverTail(segInfo)
		} else {
			w, err = f.Create(segInfo)
		}
		if err != nil {
			o.err = err.Error()
			return
		}
		last := w.LastIndex()
		for i := uint64(1); i <= last; i++ {
			pb, err := w.GetLog(i)
			if err != nil {
				o.err = fmt.Sprintf("GetLog(%d): %v", i, err)
				return
			}
			o.entries = append(o.entries, append([]byte(nil), pb.Bs...))
			pb.Close()
		}
		if pb, err := w.GetLog(last + 1); err == nil {
			o.err = fmt.Sprintf("GetLog(%d) beyond LastIndex returned %x", last+1, pb.Bs)
		}
		if sealed, _, _ := w.Sealed(); sealed {
			o.err = "recovered tail reports sealed although no seal was ever requested"
		}
		w.Close()
	})
	for _, p := range res.Panics {
		o.err = "panic: " + p.Val + "\n" + trimStack(p.Stack)
	}
	return o, d
}

type SegCrashEngine struct {
	C        SegCrashCfg
	Stats    *SegCrashStats
	Findings []Finding
	cache    map[string]*segObs
	expanded map[string]bool
	sigs     map[string]bool
	// image families for batches too large for subset enumeration: 0 = prefixes of the write;
	// 1 = prefixes, page ranges missing / alone landed, single chunks missing (level 1 of the out-of-order part);
	// 2 = the same at coarser strides (level 2)
	bigFamily int
	kidFilter func(info simdisk.ImageInfo, o *segObs) bool
}

func NewSegCrashEngine(c SegCrashCfg, st *SegCrashStats) *SegCrashEngine {
	st.Outcomes, st.ImgHashes, st.Torn = map[string]int{}, map[string]bool{}, map[string]bool{}
	return &SegCrashEngine{C: c, Stats: st, cache: map[string]*segObs{}, expanded: map[string]bool{}, sigs: map[string]bool{}}
}

func (e *SegCrashEngine) add(prop, msg string, path []segStep) {
	sig := fmt.Sprintf("%s|segcrash|%v|%s", prop, pathShapes(path), firstLineOf(msg))
	if e.sigs[sig] {
		return
	}
	e.sigs[sig] = true
	e.Findings = append(e.Findings, Finding{Prop: prop, Engine: "segcrash", Msg: msg, Depth: len(path), SigS: sig, Extra: map[string]interface{}{"segment_path": path}})
}

func pathShapes(p []segStep) string {
	s := ""
	for _, x := range p {
		s += fmt.Sprintf("%v@%d ", x.Shape, x.K)
	}
	return s
}

func firstLineOf(s string) string {
	for i := 0; i < len(s); i++ {
		if s[i] == '\n' {
			return s[:i]
		}
	}
	return s
}

func (e *SegCrashEngine) stop() bool {
	if e.C.MaxFindings > 0 && len(e.Findings) >= e.C.MaxFindings {
		return true
	}
	if time.Now().After(e.C.Deadline) {
		e.Stats.DeadlineHit = true
		return true
	}
	return false
}

// Run explores breadth first from the empty directory.
func (e *SegCrashEngine) Run() {
	if e.C.Shard == 0 || e.C.NShards == 1 {
		defer e.largeBatches()
	}
	// the last third of the time budget belongs to the out-of-order part
	final := e.C.Deadline
	e.C.Deadline = final.Add(-time.Until(final) / 3)
	defer func() {
		hit := e.Stats.DeadlineHit
		e.C.Deadline = final
		if e.C.Shard != 0 || e.C.NShards == 1 {
			e.largeOutOfOrder(e.C.BigKids)
		}
		e.Stats.DeadlineHit = e.Stats.DeadlineHit || hit
	}()
	frontier := []*segNode{{st: simdisk.NewState()}}
	for level := 1; level <= e.C.Depth && len(frontier) > 0; level++ {
		var next []*segNode
		for _, n := range frontier {
			if e.stop() {
				return
			}
			next = append(next, e.expand(n, level)...)
		}
		e.Stats.LevelsDone = level
		if level == 1 && e.C.NShards > 1 {
			// every shard computes level 1 (cheap, identical); the subtrees below it are divided
			var mine []*segNode
			for i, k := range next {
				if i%e.C.NShards == e.C.Shard {
					mine = append(mine, k)
				}
			}
			next = mine
		}
		frontier = next
	}
}

func (e *SegCrashEngine) expand(n *segNode, level int) []*segNode {
	h := n.st.Hash()
	if e.expanded[h] {
		return nil
	}
	e.expanded[h] = true
	e.Stats.States++
	var kids []*segNode
	for _, shape := range e.C.Shapes {
		if e.stop() {
			break
		}
		kids = append(kids, e.crashBatch(n, level, shape)...)
	}
	return kids
}

// crashBatch records "recover, append one batch" on n's image and checks every crash image.
func (e *SegCrashEngine) crashBatch(n *segNode, level int, shape []int) []*segNode {
	e.Stats.Batches++
	mountSeq++
	d := simdisk.NewDisk(fmt.Sprintf("s%d", mountSeq), n.st)
	dir := simdisk.Register(d)
	base := uint64(len(n.entries))
	gen := n.gen + 1
	var batch []types.LogEntry
	var want [][]byte
	for i, sz := range shape {
		p := segPayload(base+uint64(i)+1, gen, sz)
		batch = append(batch, types.LogEntry{Index: base + uint64(i) + 1, Data: p})
		want = append(want, p)
	}
	ackAt := -1
	var recErr string
	res := vsched.Run(vsched.DefaultChooser{}, 0, false, func() {
		f := segment.NewFiler(dir, fs.New())
		var w types.SegmentWriter
		var err error
		if _, ok := n.st.Files[segment.FileName(segInfo)]; ok {
			w, err = f.RecoverTail(segInfo)
		} else {
			w, err = f.Create(segInfo)
		}
		if err != nil {
			recErr = err.Error()
			return
		}
		d.Mark(simdisk.OpCall, 1, "append")
		if err := w.Append(batch); err != nil {
			recErr = "Append: " + err.Error()
			return
		}
		d.Mark(simdisk.OpAck, 1, "ok")
		ackAt = d.LogLen()
		w.Close()
	})
	simdisk.Unregister(d)
	for _, p := range res.Panics {
		recErr = "panic: " + p.Val
	}
	path0 := n.path
	if recErr != "" {
		e.add("C03", fmt.Sprintf("segment level: recovered tail cannot take the next batch %v: %s", shape, recErr), path0)
		return nil
	}
	log := d.Log
	var kids []*segNode
	seen := map[string]bool{}
	cps := CrashPoints(n.st, d.BaseIno, log)
	if e.bigFamily > 0 {
		// out-of-order families: only the crash point with the whole write pending (the earlier ones have a
		// prefix of its pwrites pending, which the prefix family covers)
		best := -1
		for i, cp := range cps {
			if cp.Inflight == 1 && (best < 0 || cp.model.PendingChunks() > cps[best].model.PendingChunks()) {
				best = i
			}
		}
		if best >= 0 {
			cps = cps[best : best+1]
		}
	}
	for _, cp := range cps {
		if e.stop() {
			break
		}
		acked := cp.Acked >= 1
		inflight := cp.Inflight == 1
		enumerate := func(fn func(img *simdisk.State, info simdisk.ImageInfo) bool) { cp.model.Enumerate(1<<14, fn) }
		if total := sumInts(shape); total > 16384 {
			// a write of this size has far too many torn images; take "reached the disk up to some offset"
			// at a stride that is not a multiple of the frame alignment
			enumerate = func(fn func(img *simdisk.State, info simdisk.ImageInfo) bool) { cp.model.EnumeratePrefixes(61, fn) }
			switch e.bigFamily {
			case 1:
				enumerate = func(fn func(img *simdisk.State, info simdisk.ImageInfo) bool) {
					cp.model.EnumeratePrefixes(e.C.BigStride[0], fn)
					cp.model.EnumerateRanges(e.C.BigStride[1], fn)
					cp.model.EnumerateRanges(-e.C.BigStride[2], fn)
				}
			case 2:
				enumerate = func(fn func(img *simdisk.State, info simdisk.ImageInfo) bool) {
					cp.model.EnumeratePrefixes(e.C.BigStride[3], fn)
					cp.model.EnumerateRanges(e.C.BigStride[4], fn)
					cp.model.EnumerateRanges(-e.C.BigStride[5], fn)
				}
			}
		}
		enumerate(func(img *simdisk.State, info simdisk.ImageInfo) bool {
			e.Stats.Images++
			ih := img.Hash()
			if !e.Stats.ImgHashes[ih] {
				e.Stats.ImgHashes[ih] = true
			}
			if info.Dropped > 0 && info.Landed > 0 {
				e.Stats.Torn[ih] = true
			}
			o := e.cache[ih]
			if o == nil {
				o, _ = segRecover(img)
				e.cache[ih] = o
				e.Stats.Recoveries++
			}
			step := segStep{Shape: shape, K: cp.K, Img: ih, Desc: info.Desc}
			path := append(append([]segStep(nil), path0...), step)
			e.Stats.Outcomes[fmt.Sprintf("%d entries", len(o.entries))]++
			if o.err != "" {
				e.add("C02", "segment level: recovery of a crash image failed or misbehaved: "+o.err, path)
				return true
			}
			// legal: the previously committed entries, optionally followed by the whole batch
			okOld := sameEntries(o.entries, n.entries)
			okNew := sameEntries(o.entries, append(append([][]byte{}, n.entries...), want...))
			switch {
			case acked && !okNew:
				e.add("C01", fmt.Sprintf("segment level: acknowledged batch %v not recovered intact: recovered %d entries %s, expected %d", shape, len(o.entries), entriesDiff(o.entries, append(append([][]byte{}, n.entries...), want...)), len(n.entries)+len(want)), path)
			case !acked && !okOld && !(inflight && okNew):
				e.add("C02", fmt.Sprintf("segment level: recovery returned content that was never (completely) written or half a batch: recovered %d entries %s; legal: the %d committed ones%s", len(o.entries), entriesDiff(o.entries, n.entries), len(n.entries), map[bool]string{true: " or those plus the whole in-flight batch", false: ""}[inflight]), path)
			default:
				if len(e.Stats.Samples) < 3 && level >= 3 && info.Dropped > 0 && info.Landed > 0 {
					e.Stats.Samples = append(e.Stats.Samples, map[string]interface{}{"segment_path": path, "recovered_entries": len(o.entries)})
				}
				if level < e.C.Depth && !seen[ih] && !e.expanded[ih] && (e.kidFilter == nil || e.kidFilter(info, o)) {
					seen[ih] = true
					kids = append(kids, &segNode{st: img, entries: o.entries, path: path, gen: gen})
				}
			}
			return !e.stop()
		})
	}
	_ = ackAt
	return kids
}

func sumInts(v []int) int {
	t := 0
	for _, x := range v {
		t += x
	}
	return t
}

// segAfterOneBatch: a node with one small committed batch (recorded, image after the clean close).
func segAfterOneBatch() *segNode {
	mountSeq++
	d := simdisk.NewDisk(fmt.Sprintf("s%d", mountSeq), simdisk.NewState())
	dir := simdisk.Register(d)
	p := segPayload(1, 1, 8)
	ok := false
	vsched.Run(vsched.DefaultChooser{}, 0, false, func() {
		f := segment.NewFiler(dir, fs.New())
		w, err := f.Create(segInfo)
		if err != nil {
			return
		}
		if w.Append([]types.LogEntry{{Index: 1, Data: p}}) == nil {
			ok = true
		}
		w.Close()
	})
	simdisk.Unregister(d)
	if !ok {
		return nil
	}
	return &segNode{st: d.Volatile(), entries: [][]byte{p}, gen: 1}
}

// largeBatches: batches whose frames exceed the writer's 64 KiB buffer several times over, as the first batch
// of the segment and after a committed small one; crash images = every prefix of the batch's write (stride 61
// chunks). A batch is present in full or absent in full.
func (e *SegCrashEngine) largeBatches() {
	depth := e.C.Depth
	e.C.Depth = 0 // no expansion below these images
	limit := segInfo.SizeLimit
	segInfo.SizeLimit = 256 << 10
	defer func() { e.C.Depth, segInfo.SizeLimit = depth, limit }()
	root := &segNode{st: simdisk.NewState()}
	after := segAfterOneBatch()
	for _, n := range []*segNode{root, after} {
		if n == nil {
			continue
		}
		for _, shape := range [][]int{{40000, 40000, 40000}, {70000, 100, 70000}} {
			if e.stop() {
				return
			}
			e.crashBatch(n, 1, shape)
		}
	}
}

// largeOutOfOrder: the pages of a write several times larger than the writer's buffer reach the disk in any
// order. Level 1: one committed small batch, then the batch {204800, 100, 100}; images = prefixes, every range
// of 8 KiB missing or alone landed, single chunks missing. Level 2, below images in which the batch was
// not recovered (spread evenly, at most maxKids per shard): one-entry batches whose commit frame ends exactly
// where a frame of the stale batch begins (its second and third entry, its commit frame, its end) - the
// positions at which recovery's frame scan would run from new data into stale data - with the same families at
// coarser strides. Oracle as everywhere: committed entries intact, the in-flight batch whole or absent.
func (e *SegCrashEngine) largeOutOfOrder(maxKids int) {
	if e.stop() {
		return
	}
	depth := e.C.Depth
	defer func() { e.C.Depth, e.bigFamily, e.kidFilter = depth, 0, nil }()
	shape := []int{204800, 100, 100}
	limit := segInfo.SizeLimit
	segInfo.SizeLimit = 256 << 10 // images are as long as the file: keep them small
	defer func() { segInfo.SizeLimit = limit }()
	after := segAfterOneBatch()
	if after == nil {
		return
	}
	e.C.Depth, e.bigFamily = 2, 1
	nOld := len(after.entries)
	e.kidFilter = func(info simdisk.ImageInfo, o *segObs) bool { return len(o.entries) == nOld && info.Landed > 0 }
	kids := e.crashBatch(after, 1, shape)
	// tail offset after the committed batch: file header 32 + entry frame (8 + 8) + commit frame 8
	pad8 := func(n int) int { return (n + 7) / 8 * 8 }
	T := 32 + 8 + pad8(len(after.entries[0])) + 8
	var ends []int
	off := T
	for _, sz := range shape {
		off += 8 + pad8(sz)
		ends = append(ends, off) // start of the next entry frame / of the commit frame
	}
	ends = append(ends, off+8) // end of the stale commit frame
	var shapes2 [][]int
	for _, end := range ends {
		if p := end - T - 16; p > 0 {
			shapes2 = append(shapes2, []int{p})
		}
	}
	// most interesting first: the beginning of the write is missing and a later part landed (recovery sees no
	// batch at all and stale frames stay behind zeros), then other windows, prefixes last
	prio := func(k *segNode) int {
		var a, b, n int
		d := k.path[len(k.path)-1].Desc
		if _, err := fmt.Sscanf(d, "range: pending chunks [%d,%d) of %d", &a, &b, &n); err != nil {
			return 3
		}
		switch {
		case a == 0 && strings.HasSuffix(d, "missing"):
			return 0
		case a > 0 && !strings.HasSuffix(d, "missing"):
			return 1
		}
		return 2
	}
	sort.SliceStable(kids, func(i, j int) bool { return prio(kids[i]) < prio(kids[j]) })
	var mine []*segNode
	for i, k := range kids {
		if e.C.NShards <= 1 || i%e.C.NShards == e.C.Shard {
			mine = append(mine, k)
		}
	}
	if len(mine) > maxKids {
		mine = mine[:maxKids]
	}
	e.bigFamily, e.kidFilter = 2, nil
	for _, k := range mine {
		for _, sh := range shapes2 {
			if e.stop() {
				return
			}
			e.crashBatch(k, 2, sh)
		}
	}
}

func sameEntries(a, b [][]byte) bool {
	if len(a) != len(b) {
		return false
	}
	for i := range a {
		if !bytes.Equal(a[i], b[i]) {
			return false
		}
	}
	return true
}

func entriesDiff(got, want [][]byte) string {
	short := func(b []byte) string {
		if len(b) > 24 {
			return fmt.Sprintf("%x... (%d bytes)", b[:24], len(b))
		}
		return fmt.Sprintf("%x", b)
	}
	for i := range got {
		if i >= len(want) {
			return fmt.Sprintf("(extra entry %d = %s)", i+1, short(got[i]))
		}
		if !bytes.Equal(got[i], want[i]) {
			return fmt.Sprintf("(entry %d = %s, submitted %s)", i+1, short(got[i]), short(want[i]))
		}
	}
	return ""
}

// ---------------------------------------------------------------------------
// Filer.Delete under failing steps (C07: "a segment deletion is followed by a directory fsync before it is
// reported done").

// FilerDeleteCase: a committed segment file exists; Delete runs with the at-th faultable step failing in the
// given flavour; when it reports an error it is called again on a healthy disk (a caller retrying). Whenever
// a Delete call returns nil, no crash image of the disk may still contain the file.
func FilerDeleteCase(at int, kind simdisk.FaultKind) (viol []string, steps int, outcome string) {
	mountSeq++
	d := simdisk.NewDisk(fmt.Sprintf("fd%d", mountSeq), simdisk.NewState())
	dir := simdisk.Register(d)
	defer simdisk.Unregister(d)
	name := segment.FileName(segInfo)
	res := vsched.Run(vsched.DefaultChooser{}, 0, false, func() {
		f := segment.NewFiler(dir, fs.New())
		w, err := f.Create(segInfo)
		if err != nil {
			viol = append(viol, "INTERNAL create: "+err.Error())
			return
		}
		if err := w.Append([]types.LogEntry{{Index: 1, Data: segPayload(1, 0, 8)}}); err != nil {
			viol = append(viol, "INTERNAL append: "+err.Error())
			return
		}
		w.Close()
		before := d.FaultOps
		d.FaultAt, d.FaultKind = before+at, kind
		check := func(what string) {
			cps := CrashPoints(simdisk.NewState(), d.BaseIno, d.Log)
			if len(cps) == 0 {
				return
			}
			cps[len(cps)-1].model.Enumerate(1<<12, func(img *simdisk.State, info simdisk.ImageInfo) bool {
				if _, ok := img.Files[name]; ok {
					viol = append(viol, fmt.Sprintf("%s returned nil but a crash right after it can bring %s back (%s): no directory fsync followed the unlink", what, name, info.Desc))
					return false
				}
				return true
			})
		}
		err = f.Delete(segInfo.BaseIndex, segInfo.ID)
		steps = d.FaultOps - before
		d.FaultAt = -1
		if err == nil {
			outcome = "first call ok"
			check("Delete")
			return
		}
		err2 := f.Delete(segInfo.BaseIndex, segInfo.ID)
		if err2 == nil {
			outcome = "first call failed, retry ok"
			check(fmt.Sprintf("Delete retried after a failed call (%v)", err))
		} else {
			outcome = "first call failed, retry failed"
		}
	})
	for _, p := range res.Panics {
		viol = append(viol, "panic: "+p.Val)
	}
	return viol, steps, outcome
}

package core

import (
	"errors"
	"fmt"
	"strings"
	"time"

	"github.com/hashicorp/raft"
	wal "github.com/hashicorp/raft-wal"

	"verif/shim/vsched"
	"verif/simdisk"
)

// ---------------------------------------------------------------------------
// Preemption-bounded depth-first exploration of schedules.

type prefixChooser struct {
	prefix   []int
	pos      int
	diverged string
}

func (c *prefixChooser) Choose(p *vsched.PointInfo) int {
	i := c.pos
	c.pos++
	if i < len(c.prefix) {
		if c.prefix[i] >= len(p.Enabled) {
			c.diverged = fmt.Sprintf("replay divergence at choice %d: want alternative %d of %d", i, c.prefix[i], len(p.Enabled))
			return 0
		}
		return c.prefix[i]
	}
	return 0
}

// NewPrefixChooser replays a recorded schedule (list of choice indexes) and
// takes the default choice afterwards.
func NewPrefixChooser(prefix []int) vsched.Chooser { return &prefixChooser{prefix: prefix} }

type ExploreStats struct {
	Executions  int
	MaxChoices  int
	Bound       int
	Complete    bool
	DeadlineHit bool
	Outcomes    map[string]int
	Preempt     map[int]int // executions by number of preemptions
}

type Explorer struct {
	Bound    int
	Deadline time.Time
	Shard    int
	NShards  int
	Stats    *ExploreStats
	// Run executes the scenario under the chooser and returns the scheduler
	// result; Check is called for every complete execution (owner shard only).
	Run     func(ch vsched.Chooser) *vsched.Result
	Check   func(prefix []int, r *vsched.Result)
	Stop    func() bool
	counter int
}

func (x *Explorer) Explore() {
	if x.Stats.Outcomes == nil {
		x.Stats.Outcomes = map[string]int{}
		x.Stats.Preempt = map[int]int{}
	}
	x.Stats.Bound = x.Bound
	x.Stats.Complete = true
	x.explore(nil, 0, true)
}

func (x *Explorer) explore(prefix []int, depth int, mine bool) {
	if time.Now().After(x.Deadline) {
		x.Stats.DeadlineHit = true
		x.Stats.Complete = false
		return
	}
	if x.Stop != nil && x.Stop() {
		x.Stats.Complete = false
		return
	}
	ch := &prefixChooser{prefix: prefix}
	r := x.Run(ch)
	if ch.diverged != "" {
		panic("INTERNAL: " + ch.diverged)
	}
	countIt := mine && (depth >= 2 || x.Shard == 0)
	if countIt {
		x.Stats.Executions++
		if len(r.Choices) > x.Stats.MaxChoices {
			x.Stats.MaxChoices = len(r.Choices)
		}
		np := 0
		for _, c := range r.Choices {
			if c.CurEnabled && c.Chosen != 0 {
				np++
			}
		}
		x.Stats.Preempt[np]++
		x.Check(prefix, r)
	}
	pre := 0
	for i := 0; i < len(r.Choices); i++ {
		c := r.Choices[i]
		if i >= len(prefix) {
			cost := pre
			if c.CurEnabled {
				cost++
			}
			if cost <= x.Bound {
				for alt := 1; alt < c.N; alt++ {
					child := make([]int, i+1)
					for j := 0; j < i; j++ {
						child[j] = r.Choices[j].Chosen
					}
					child[i] = alt
					cm := mine
					if depth+1 == 2 && x.NShards > 1 {
						x.counter++
						cm = x.counter%x.NShards == x.Shard
					}
					if !cm {
						continue
					}
					x.explore(child, depth+1, cm)
				}
			}
		}
		if c.CurEnabled && c.Chosen != 0 {
			pre++
		}
	}
}

// ---------------------------------------------------------------------------
// Scenarios: a sequential set-up followed by concurrent threads.

// Thread ops use Op with extra kinds: GL (GetLog Idx), FI, LI, C (Close),
// G (stable Get Key), GU (GetUint64 Key).
type ThreadSpec struct {
	Name string `json:"name"`
	Ops  []Op   `json:"ops"`
}

type Scenario struct {
	Name           string       `json:"name"`
	Cfg            Config       `json:"config"`
	Setup          []Op         `json:"setup"`
	Threads        []ThreadSpec `json:"threads"`
	Writer         int          `json:"writer"`                     // index of the (single) mutating thread, -1 if none
	Prop           string       `json:"prop,omitempty"`             // property the generic clauses are attributed to (default C06, C14 with a closer)
	MetaCloseFails bool         `json:"meta_close_fails,omitempty"` // the metadata store's Close returns an error
	Closer         bool         `json:"closer"`                     // some thread calls Close: ErrClosed answers are legal once Close was invoked
	// FailDecodeOnce: the WAL runs with an external codec (the default encoding under ID 70001) whose Decode
	// fails once for this index; the setup ends with one GetLog of it (which fails) before the threads start.
	FailDecodeOnce uint64 `json:"fail_decode_once,omitempty"`
}

// FlakyCodec is the default binary encoding under an external codec ID; Decode fails once for FailIdx.
type FlakyCodec struct {
	wal.BinaryCodec
	FailIdx uint64
	failed  bool
}

func (c *FlakyCodec) ID() uint64 { return 70001 }

func (c *FlakyCodec) Decode(b []byte, l *raft.Log) error {
	if err := c.BinaryCodec.Decode(b, l); err != nil {
		return err
	}
	if l.Index == c.FailIdx && !c.failed {
		c.failed = true
		return errors.New("injected decode failure")
	}
	return nil
}

type Event struct {
	Thread    int
	Op        Op
	Inv       int64
	Ret       int64
	Err       string
	Val       string
	closedErr bool
	notFound  bool
}

type ExecRecord struct {
	Events           []*Event
	Setup            *Model
	Disk             *simdisk.Disk
	PostViol         []Violation
	OpenHandlesAtEnd int
	DaemonsLeft      []string
	FinalObs         *Obs
}

func (e *Event) String() string {
	r := e.Val
	if e.Err != "" {
		r = "err:" + e.Err
	}
	return fmt.Sprintf("t%d %s [%d,%d] -> %s", e.Thread, e.Op, e.Inv, e.Ret, r)
}

// RunScenario executes sc once under the chooser.
func RunScenario(sc *Scenario, ch vsched.Chooser, trace bool) (*vsched.Result, *ExecRecord) {
	rec := &ExecRecord{}
	sys := Mount(simdisk.NewState(), sc.Cfg)
	defer sys.Unmount()
	sys.MetaCloseErr = sc.MetaCloseFails
	if sc.FailDecodeOnce > 0 {
		sys.Codec = &FlakyCodec{FailIdx: sc.FailDecodeOnce}
	}
	rec.Disk = sys.Disk
	simdisk.Clock = vsched.Tick
	defer func() { simdisk.Clock = nil }()
	body := func() {
		vsched.SetRecording(false)
		if err := sys.Open(); err != nil {
			rec.PostViol = append(rec.PostViol, Violation{Prop: "INTERNAL", Msg: "setup open: " + err.Error()})
			return
		}
		m := NewModel()
		for _, op := range sc.Setup {
			nm := m.Clone()
			rej := ApplyModel(nm, op)
			err := sys.Apply(op)
			vsched.Quiesce()
			if err != nil || rej {
				rec.PostViol = append(rec.PostViol, Violation{Prop: "INTERNAL", Msg: fmt.Sprintf("setup op %s: err=%v reject=%v", op, err, rej)})
				return
			}
			m = nm
		}
		rec.Setup = m
		w := sys.W
		if sc.FailDecodeOnce > 0 {
			var g raft.Log
			if err := w.GetLog(sc.FailDecodeOnce, &g); err == nil {
				rec.PostViol = append(rec.PostViol, Violation{Prop: "INTERNAL", Msg: "setup: the injected decode failure did not surface"})
				return
			}
			vsched.Quiesce()
		}
		vsched.SetRecording(true)
		for ti := range sc.Threads {
			ti := ti
			ts := sc.Threads[ti]
			vsched.Spawn(ts.Name, func() {
				for _, op := range ts.Ops {
					ev := &Event{Thread: ti, Op: op, Inv: vsched.Tick()}
					doThreadOp(w, op, ev)
					ev.Ret = vsched.Tick()
					rec.Events = append(rec.Events, ev)
				}
			})
		}
		vsched.WaitThreads()
		vsched.SetRecording(false)
		vsched.Quiesce()
		// post-conditions
		if sc.Closer {
			rec.PostViol = append(rec.PostViol, postCloseChecks(w)...)
			vsched.Quiesce()
			rec.DaemonsLeft = vsched.DaemonsLeft()
			rec.OpenHandlesAtEnd = sys.Disk.OpenHandles
			// every DeleteRange that returned nil has removed its segments for good: once the readers are done
			// (they are) their files are gone, whether or not the WAL was closed in between
			allOK := true
			for _, ev := range rec.Events {
				if ev.Op.K == "D" && ev.Err != "" {
					allOK = false
				}
			}
			if exp, err := ExpectedListing(sys.MetaRaw()); err == nil && allOK {
				in := map[string]bool{}
				for _, n := range exp {
					in[n] = true
				}
				for _, n := range sys.List() {
					if !in[n] && strings.HasSuffix(n, ".wal") {
						rec.PostViol = append(rec.PostViol, Violation{Prop: "C13", Msg: fmt.Sprintf("every DeleteRange returned nil, all readers finished and the WAL is closed, yet the directory still holds %s, which the metadata no longer lists (%v)", n, exp)})
					}
				}
			}
		} else {
			// every thread is done and background work has run: the files of segments that
			// truncations removed must be gone, nothing else may be missing
			if exp, err := ExpectedListing(sys.MetaRaw()); err == nil {
				var have []string
				for _, n := range sys.List() {
					have = append(have, n)
				}
				if !sameStrings(exp, have) {
					rec.PostViol = append(rec.PostViol, Violation{Prop: "C13", Msg: fmt.Sprintf("after all calls returned and readers finished the directory holds %v, metadata lists %v", have, exp)})
				}
			}
			w.Close()
			vsched.Quiesce()
		}
		// reopen and look
		sys2 := &Sys{Disk: sys.Disk, Dir: sys.Dir, Cfg: sys.Cfg}
		if sc.FailDecodeOnce > 0 {
			sys2.Codec = &FlakyCodec{}
		}
		if err := sys2.Open(); err != nil {
			rec.FinalObs = &Obs{OpenErr: err.Error()}
			return
		}
		rec.FinalObs = sys2.Observe(1, 12)
		sys2.W.Close()
		vsched.Quiesce()
	}
	res := vsched.Run(ch, 50000, trace, body)
	return res, rec
}

func doThreadOp(w *wal.WAL, op Op, ev *Event) {
	setErr := func(err error) {
		if err == nil {
			return
		}
		ev.Err = err.Error()
		if errors.Is(err, wal.ErrClosed) {
			ev.closedErr = true
		}
		if errors.Is(err, raft.ErrLogNotFound) {
			ev.notFound = true
		}
	}
	switch op.K {
	case "A":
		setErr(w.StoreLogs(op.Logs()))
	case "D":
		setErr(w.DeleteRange(op.Min, op.Max))
	case "S":
		if op.Nil {
			setErr(w.Set([]byte(op.Key), nil))
		} else {
			setErr(w.Set([]byte(op.Key), op.Val))
		}
	case "U":
		setErr(w.SetUint64([]byte(op.Key), op.U64))
	case "C":
		setErr(w.Close())
	case "GL":
		var l raft.Log
		err := w.GetLog(op.Idx, &l)
		setErr(err)
		if err == nil {
			ev.Val = Fingerprint(&l)
		}
	case "FI":
		v, err := w.FirstIndex()
		setErr(err)
		ev.Val = fmt.Sprint(v)
	case "LI":
		v, err := w.LastIndex()
		setErr(err)
		ev.Val = fmt.Sprint(v)
	case "G":
		v, err := w.Get([]byte(op.Key))
		setErr(err)
		ev.Val = fmt.Sprintf("%x", v)
	case "GU":
		v, err := w.GetUint64([]byte(op.Key))
		setErr(err)
		ev.Val = fmt.Sprint(v)
	}
}

// postCloseChecks: after Close has returned every method answers ErrClosed and
// a second Close is a no-op.
func postCloseChecks(w *wal.WAL) []Violation {
	var vs []Violation
	chk := func(name string, err error) {
		if !errors.Is(err, wal.ErrClosed) {
			vs = append(vs, Violation{Prop: "C14", Msg: fmt.Sprintf("%s after Close returned %v, want ErrClosed", name, err)})
		}
	}
	_, err := w.FirstIndex()
	chk("FirstIndex", err)
	_, err = w.LastIndex()
	chk("LastIndex", err)
	var l raft.Log
	chk("GetLog", w.GetLog(1, &l))
	chk("StoreLogs", w.StoreLogs([]*raft.Log{MkLog(99, 0, 4)}))
	chk("StoreLog", w.StoreLog(MkLog(99, 0, 4)))
	chk("DeleteRange", w.DeleteRange(1, 1))
	chk("Set", w.Set([]byte("k1"), []byte("z")))
	_, err = w.Get([]byte("k1"))
	chk("Get", err)
	chk("SetUint64", w.SetUint64([]byte("k1"), 1))
	_, err = w.GetUint64([]byte("k1"))
	chk("GetUint64", err)
	if err := w.Close(); err != nil {
		vs = append(vs, Violation{Prop: "C14", Msg: fmt.Sprintf("second Close returned %v, want nil", err)})
	}
	return vs
}

// ---------------------------------------------------------------------------
// Oracle

func modelAnswer(m *Model, op Op) string {
	switch op.K {
	case "GL":
		if m.Last > 0 && op.Idx >= m.First && op.Idx <= m.Last {
			return Fingerprint(m.E[op.Idx])
		}
		return NF
	case "FI":
		return fmt.Sprint(m.First)
	case "LI":
		return fmt.Sprint(m.Last)
	case "G":
		return fmt.Sprintf("%x", m.Stable[op.Key])
	case "GU":
		v := m.Stable[op.Key]
		if len(v) == 0 {
			return "0"
		}
		if len(v) == 8 {
			var x uint64
			for i := 7; i >= 0; i-- {
				x = x<<8 | uint64(v[i])
			}
			return fmt.Sprint(x)
		}
		return "ERR"
	}
	return ""
}

func isMutating(k string) bool { return k == "A" || k == "D" || k == "S" || k == "U" }

// CheckExecution evaluates the linearizability (C06) and Close-safety (C14)
// clauses on one complete execution.
func CheckExecution(sc *Scenario, res *vsched.Result, rec *ExecRecord) []Violation {
	var vs []Violation
	prop := "C06"
	if sc.Closer {
		prop = "C14"
	}
	if sc.Prop != "" {
		prop = sc.Prop
	}
	add := func(p, f string, a ...interface{}) { vs = append(vs, Violation{Prop: p, Msg: fmt.Sprintf(f, a...)}) }
	for _, p := range res.Panics {
		add(prop, "panic in thread %s: %s\n%s", p.Thread, p.Val, trimStack(p.Stack))
	}
	if res.Deadlock {
		add(prop, "deadlock: %v", res.Blocked)
	}
	if res.StepLimit {
		add(prop, "livelock / step limit")
	}
	vs = append(vs, rec.PostViol...)
	if len(res.Panics) > 0 || res.Deadlock || res.StepLimit || rec.Setup == nil {
		return vs
	}
	// versions from the writer thread
	type ver struct {
		m        *Model
		inv, ret int64
		op       Op
	}
	versions := []ver{{m: rec.Setup, inv: -1, ret: -1}}
	var closeInv int64 = -1
	var closeRet int64 = -1
	// several threads may call Close: ErrClosed answers are legal from the earliest invocation on, and
	// mandatory after the earliest return
	for _, e := range rec.Events {
		if e.Op.K == "C" {
			if closeInv < 0 || e.Inv < closeInv {
				closeInv = e.Inv
			}
			if closeRet < 0 || e.Ret < closeRet {
				closeRet = e.Ret
			}
		}
	}
	var failedOps []Op
	cur := rec.Setup
	for _, e := range rec.Events {
		if !isMutating(e.Op.K) {
			continue
		}
		nm := cur.Clone()
		rej := ApplyModel(nm, e.Op)
		switch {
		case e.Err == "" && !rej:
			cur = nm
			versions = append(versions, ver{m: cur, inv: e.Inv, ret: e.Ret, op: e.Op})
		case e.Err != "" && rej:
			// correctly refused
		case e.closedErr && sc.Closer && closeInv >= 0 && closeInv < e.Ret:
			failedOps = append(failedOps, e.Op)
		case e.Err == "" && rej:
			add(prop, "%s must be rejected but succeeded", e)
		default:
			add(prop, "%s: valid operation failed", e)
		}
		if sc.Closer && e.Err == "" && closeRet >= 0 && e.Inv > closeRet {
			add("C14", "%s succeeded although it started after Close had returned", e)
		}
	}
	// writer ops are recorded at return; they belong to one thread so order is program order
	for _, e := range rec.Events {
		if isMutating(e.Op.K) || e.Op.K == "C" {
			continue
		}
		lo, hi := 0, 0
		for i := 1; i < len(versions); i++ {
			if versions[i].ret < e.Inv {
				lo = i
			}
			if versions[i].inv < e.Ret {
				hi = i
			}
		}
		if e.closedErr {
			if sc.Closer && closeInv >= 0 && closeInv < e.Ret {
				continue
			}
			add(prop, "%s returned ErrClosed although Close had not been called", e)
			continue
		}
		if sc.Closer && closeRet >= 0 && e.Inv > closeRet {
			add("C14", "%s did not return ErrClosed although it started after Close had returned", e)
			continue
		}
		if e.Err != "" && !e.notFound {
			// legal only for an index removed by a truncation during the read
			removed := false
			if e.Op.K == "GL" {
				if modelAnswer(versions[lo].m, e.Op) != NF {
					for i := lo + 1; i <= hi; i++ {
						if modelAnswer(versions[i].m, e.Op) == NF {
							removed = true
						}
					}
				}
			}
			if !removed {
				add(prop, "%s: error other than not-found for an index no truncation removed during the read (versions %d..%d)", e, lo, hi)
			}
			continue
		}
		got := e.Val
		if e.notFound {
			got = NF
		}
		ok := false
		from := -1
		var legal []string
		for i := lo; i <= hi; i++ {
			a := modelAnswer(versions[i].m, e.Op)
			legal = append(legal, a)
			if a == got {
				ok = true
				if from < 0 {
					from = i
				}
			}
		}
		if !ok {
			add(prop, "%s: answer was true in no log state current during the call (versions %d..%d answer %v)", e, lo, hi, legal)
			continue
		}
		// visible only once durable: the answer exists only from an in-flight version on
		if e.Op.K == "GL" && got != NF && from > lo {
			durable := false
			for _, o := range rec.Disk.Log {
				if o.Kind == simdisk.OpFsync && o.Stamp > versions[from].inv && o.Stamp < e.Ret {
					durable = true
				}
			}
			if !durable {
				add("C06", "%s: entry of in-flight %s returned before its batch was fsynced", e, versions[from].op)
			}
		}
	}
	// after reopen everything acknowledged is there
	if rec.FinalObs != nil {
		final := versions[len(versions)-1].m
		cands := []*Model{final}
		if len(failedOps) > 0 {
			// a call that answered ErrClosed while racing with Close may or may not have taken effect
			m2 := final.Clone()
			for _, op := range failedOps {
				n := m2.Clone()
				if !ApplyModel(n, op) {
					m2 = n
					cands = append(cands, m2)
				}
			}
		}
		okAny := rec.FinalObs.OpenErr == ""
		if okAny {
			okAny = false
			for _, m := range cands {
				if len(CompareExact(rec.FinalObs, m, prop)) == 0 && len(CompareStable(rec.FinalObs, []*Model{m})) == 0 {
					okAny = true
				}
			}
		}
		if !okAny {
			add(prop, "after reopen the WAL shows %s, expected %s", rec.FinalObs.Sig(), legalSigs(cands))
		}
	}
	if sc.Closer {
		if len(rec.DaemonsLeft) > 0 {
			add("C14", "background goroutine still alive after Close: %v", rec.DaemonsLeft)
		}
		if rec.OpenHandlesAtEnd != 0 {
			add("C14", "%d file handles still open after Close and all reads finished", rec.OpenHandlesAtEnd)
		}
	}
	return vs
}

// HistoryString renders the events for replay files.
func HistoryString(rec *ExecRecord) string {
	var ss []string
	for _, e := range rec.Events {
		ss = append(ss, e.String())
	}
	return strings.Join(ss, "; ")
}

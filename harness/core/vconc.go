package core

import (
	"fmt"

	"github.com/hashicorp/raft"

	"verif/shim/vsched"
)

// ---------------------------------------------------------------------------
// The verifier under concurrency: raft appends from its main loop while log compaction (a head
// DeleteRange) runs on the snapshot goroutine, and the verifier's own goroutine reads ranges back.

// VConc is one scenario. Two nodes; the setup is LA(2) LA(1,cp) RP(n1) LA(2): entries 1..5 on both nodes
// with a checkpoint at 3 (so the running sum starts at 3). Then, concurrently:
//
//	appender:  StoreLogs([6]) and, when WithCP, StoreLogs([CP7]) on node Node (leader 0 or follower 1)
//	compactor: DeleteRange(1, TruncMax) on the same node
//
// and afterwards, sequentially, the checkpoint (unless WithCP) and the replication of everything to the follower.
// TruncMax < 3 leaves every later checkpoint range alone (the statement's "ranges not modified while their
// verification runs" holds even with the checkpoint inside the concurrent part); TruncMax >= 3 reaches into the
// running sum and is only combined with WithCP=false, so that the truncation is over before the range is verified.
type VConc struct {
	Name     string    `json:"name"`
	Node     int       `json:"node"`
	TruncMax uint64    `json:"trunc_max"`
	WithCP   bool      `json:"with_cp"`
	Rest     *Mutation `json:"rest,omitempty"` // optional corruption at rest inside the range
	// CountersOnly: the truncation may overlap the checkpoint's own StoreLogs and verification (outside the
	// quantifier of C16/C17), so reports are not judged; only the published counters are compared with what
	// the harness saw: checkpoints_written = checkpoint entries stored through the middleware,
	// ranges_verified = reports delivered, and delivered + dropped = checkpoints (C20 / C18).
	CountersOnly bool `json:"counters_only,omitempty"`
}

type VConcResult struct {
	Viol    []Violation
	History string
}

// yields makes every call into the underlying store a scheduling point (a real store takes a lock there).
func (c *corruptStore) point(what string) {
	if c.yield {
		vsched.Yield("store." + what)
	}
}

func (c *corruptStore) FirstIndex() (uint64, error) {
	c.point("FirstIndex")
	return c.LogStore.FirstIndex()
}
func (c *corruptStore) LastIndex() (uint64, error) {
	c.point("LastIndex")
	return c.LogStore.LastIndex()
}
func (c *corruptStore) DeleteRange(a, b uint64) error {
	c.point("DeleteRange")
	return c.LogStore.DeleteRange(a, b)
}

func RunVConc(ch vsched.Chooser, sc *VConc) (*vsched.Result, *VConcResult) {
	out := &VConcResult{}
	bad := func(p, f string, a ...interface{}) {
		out.Viol = append(out.Viol, Violation{Prop: p, Msg: fmt.Sprintf(f, a...)})
	}
	res := vsched.Run(ch, 50000, false, func() {
		vsched.SetRecording(false)
		c := NewVCluster(2)
		c.Concurrent = true
		for _, e := range []VEvent{{K: "LA", N: 2}, {K: "LA", N: 1, CP: true}, {K: "RP", Node: 1}, {K: "LA", N: 2}, {K: "RP", Node: 1}} {
			c.Apply(e)
		}
		if len(c.Viol) > 0 {
			out.Viol = append(out.Viol, Violation{Prop: "INTERNAL", Msg: "setup: " + c.Viol[0].Msg})
			return
		}
		if sc.Rest != nil {
			c.SetRest(sc.Rest)
		}
		nd := c.Nodes[sc.Node]
		ld := c.Nodes[0]
		mk := func(idx uint64, cp bool) *raft.Log {
			l := &raft.Log{Index: idx, Term: c.Term, Type: raft.LogCommand, Data: []byte(fmt.Sprintf("d%d.%d", c.Term, idx))}
			if cp {
				l.Data = []byte(fmt.Sprintf("CP%d.%d", c.Term, idx))
			}
			return l
		}
		// what the appender hands to node Node: fresh entries on the leader, the leader's entries on the follower
		var e6, cp7 *raft.Log
		if sc.Node == 0 {
			e6, cp7 = mk(6, false), mk(7, true)
		} else {
			c.Apply(VEvent{K: "LA", N: 1})
			c.Apply(VEvent{K: "LA", N: 1, CP: true})
			e6, cp7 = c.raw(ld, 6), c.raw(ld, 7)
		}
		// the leader's entries as stored before the concurrent part (the checkpoint at 3 carries its metadata)
		pre := map[uint64]*raft.Log{}
		for i := uint64(1); i <= 5; i++ {
			pre[i] = c.raw(ld, i)
		}
		pre[6] = cloneLog(e6)
		recordTruth := func() {
			cp := c.raw(ld, 7)
			if cp != nil && len(cp.Extensions) >= 24 {
				st := leU64(cp.Extensions[8:16])
				var tr []*raft.Log
				for i := st; i < 7; i++ {
					tr = append(tr, pre[i])
				}
				c.truth[fmt.Sprintf("%d-%d-%x", st, 7, leU64(cp.Extensions[16:24]))] = tr
			}
		}
		for _, n := range c.Nodes {
			n.cs.yield = true
		}
		var errA, errD error
		vsched.SetRecording(true)
		vsched.Spawn("appender", func() {
			if errA = c.storeOn(nd, []*raft.Log{e6}); errA != nil {
				return
			}
			if sc.WithCP {
				errA = c.storeOn(nd, []*raft.Log{cp7})
			}
		})
		vsched.Spawn("compactor", func() {
			errD = nd.v.DeleteRange(1, sc.TruncMax)
		})
		vsched.WaitThreads()
		vsched.SetRecording(false)
		for _, n := range c.Nodes {
			n.cs.yield = false
		}
		vsched.Quiesce()
		if errA != nil || errD != nil {
			bad("C18", "StoreLogs: %v, DeleteRange: %v", errA, errD)
			return
		}
		if !sc.WithCP {
			if err := c.storeOn(nd, []*raft.Log{cp7}); err != nil {
				bad("C18", "StoreLogs(checkpoint): %v", err)
				return
			}
			vsched.Quiesce()
		}
		if sc.Node == 0 {
			recordTruth()
		}
		delivered := len(nd.reports)
		c.checkReports()
		if sc.Node == 0 && !sc.CountersOnly {
			// the follower gets whatever the leader still has beyond the follower's last entry
			c.Apply(VEvent{K: "RP", Node: 1})
		}
		if sc.CountersOnly {
			c.Viol = nil
			sum := nd.mc.Summary()
			// checkpoints stored through this node's middleware: 3 (setup) and 7
			wantCP := uint64(2)
			if got := sum.Counters["checkpoints_written"]; got != wantCP {
				bad("C20", "verifier counter checkpoints_written = %d, checkpoint entries stored through the middleware = %d", got, wantCP)
			}
			rv, dr := sum.Counters["ranges_verified"], sum.Counters["dropped_reports"]
			if rv+dr != wantCP {
				bad("C18", "%d checkpoints stored, ranges_verified %d + dropped_reports %d", wantCP, rv, dr)
			}
			_ = delivered
		}
		out.Viol = append(out.Viol, c.Viol...)
		out.History = fmt.Sprintf("clean=%d diverged=%d rangemismatch=%d first=%d/%d", c.Clean, c.Diverged, c.RangeMis, c.first(c.Nodes[0]), c.first(c.Nodes[1]))
		c.CloseAll()
	})
	for _, p := range res.Panics {
		bad("PANIC", "panic: %s\n%s", p.Val, trimStack(p.Stack))
	}
	if res.Deadlock {
		bad("C18", "deadlock: %v", res.Blocked)
	}
	return res, out
}

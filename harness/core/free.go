package core

import (
	"fmt"
	"math/rand"
	"runtime"
	"sync"

	"verif/simdisk"
)

// RunScenarioFree runs the scenario's thread bodies on real goroutines with no
// scheduler installed. It is the separate, non-exhaustive pass for the race
// detector: cooperative hand-offs would be happens-before edges that blind it.
func RunScenarioFree(sc *Scenario, seed int64) error {
	sys := Mount(simdisk.NewState(), sc.Cfg)
	defer sys.Unmount()
	if err := sys.Open(); err != nil {
		return fmt.Errorf("setup open: %w", err)
	}
	for _, op := range sc.Setup {
		if err := sys.Apply(op); err != nil {
			return fmt.Errorf("setup %s: %w", op, err)
		}
	}
	w := sys.W
	var wg sync.WaitGroup
	start := make(chan struct{})
	for ti := range sc.Threads {
		ts := sc.Threads[ti]
		rng := rand.New(rand.NewSource(seed*31 + int64(ti)))
		wg.Add(1)
		go func() {
			defer wg.Done()
			<-start
			for _, op := range ts.Ops {
				for k := rng.Intn(4); k > 0; k-- {
					runtime.Gosched()
				}
				ev := &Event{Op: op}
				doThreadOp(w, op, ev)
			}
		}()
	}
	close(start)
	wg.Wait()
	w.Close()
	return nil
}

package core

import (
	"fmt"
	"time"

	"github.com/hashicorp/raft"
	wal "github.com/hashicorp/raft-wal"
	"github.com/hashicorp/raft-wal/metrics"

	"verif/simdisk"
)

// SeqCfg configures the bounded-exhaustive operation-sequence engine.
type SeqCfg struct {
	Prop        string
	Depth       int
	Alpha       func(m *Model) []Op // alphabet for a model state, rejected ops included
	RealDepth   int                 // sequences up to this length are also run on real fs + bbolt and compared step by step
	Lazy        bool                // also run every sequence without waiting for the background rotation between calls
	Metrics     bool                // attach AtomicCollectors and check the counters after every step
	Deadline    time.Time
	Shard       int
	NShards     int
	MaxFindings int
}

type SeqStats struct {
	Sequences   int
	Steps       int
	RealRuns    int
	DepthDone   int
	LazyRuns    int
	Rejected    int // steps the model rejects (and the implementation must too)
	Outcomes    map[string]int
	DeadlineHit bool
	Samples     []interface{}
	SeqSigs     map[string]bool // distinct final model states reached
	NonTrivial  int
}

type SeqEngine struct {
	C        SeqCfg
	Cfg      Config
	Stats    *SeqStats
	Findings []Finding
	findSig  map[string]bool
	counter  int
}

func NewSeqEngine(c SeqCfg, cfg Config, st *SeqStats) *SeqEngine {
	if st.Outcomes == nil {
		st.Outcomes = map[string]int{}
		st.SeqSigs = map[string]bool{}
	}
	return &SeqEngine{C: c, Cfg: cfg, Stats: st, findSig: map[string]bool{}}
}

func (e *SeqEngine) add(f Finding) {
	f.Engine = "seq"
	f.Cfg = e.Cfg
	s := f.Prop + "|seq|seg=" + fmt.Sprint(e.Cfg.SegSize) + "|" + OpsString(f.Ops) + "|" + f.Msg
	if e.findSig[s] {
		return
	}
	e.findSig[s] = true
	f.SigS = fmt.Sprintf("%s|seq|seg=%d|%s", f.Prop, e.Cfg.SegSize, OpsString(f.Ops))
	e.Findings = append(e.Findings, f)
}

func (e *SeqEngine) stop() bool {
	if e.C.MaxFindings > 0 && len(e.Findings) >= e.C.MaxFindings {
		return true
	}
	if time.Now().After(e.C.Deadline) {
		e.Stats.DeadlineHit = true
		return true
	}
	return false
}

// Run enumerates every sequence of length 1..Depth (shortest first).
func (e *SeqEngine) Run() {
	for d := 1; d <= e.C.Depth; d++ {
		e.rec(nil, NewModel(), d)
		if e.stop() {
			return
		}
		e.Stats.DepthDone = d
	}
}

func (e *SeqEngine) rec(cur []Op, m *Model, want int) {
	if e.stop() {
		return
	}
	if len(cur) == want {
		e.counter++
		if e.C.NShards > 1 && e.counter%e.C.NShards != e.C.Shard {
			return
		}
		e.runOne(cur)
		return
	}
	for _, o := range e.C.Alpha(m) {
		nm := m.Clone()
		if ApplyModel(nm, o) {
			nm = m
		}
		e.rec(append(cur, o), nm, want)
	}
}

func (e *SeqEngine) runOne(ops []Op) {
	e.Stats.Sequences++
	full := append(append([]Op(nil), ops...), Op{K: "R"})
	so := SessionOpts{ObserveEach: true, CmpProp: e.C.Prop, CloseAtEnd: true}
	var mm *MetricsModel
	sys := Mount(simdisk.NewState(), e.Cfg)
	defer sys.Unmount()
	so.Sys = sys
	if e.C.Metrics {
		mm = NewMetricsModel()
		sys.MC = mm.Collector
		sys.Cnt = &mm.Exp
		so.AfterStep = mm.AfterStep
	}
	sr := RunSession(nil, e.Cfg, full, so)
	e.Stats.Steps += len(full)
	for _, v := range sr.Viol {
		if v.Prop == "PANIC" && e.C.Metrics {
			v.Msg = "(metrics collector built from the published definitions) " + v.Msg
		}
		e.add(Finding{Prop: v.Prop, Msg: v.Msg, Ops: full})
	}
	if len(sr.Models) > 0 {
		fm := sr.Models[len(sr.Models)-1]
		sig := fm.Sig() + "|" + fm.StableSig()
		if !e.Stats.SeqSigs[sig] {
			e.Stats.SeqSigs[sig] = true
		}
		e.Stats.Outcomes[fmt.Sprintf("[%d,%d]", fm.First, fm.Last)]++
		if fm.Last > 0 {
			e.Stats.NonTrivial++
		}
	}
	if len(e.Stats.Samples) < 3 && len(ops) == e.C.Depth && len(sr.Models) > 0 {
		e.Stats.Samples = append(e.Stats.Samples, map[string]interface{}{"config": e.Cfg, "ops": OpsString(full), "final_model": sr.Models[len(sr.Models)-1].Sig()})
	}
	if len(ops) <= e.C.RealDepth {
		e.runReal(full, sr)
	}
	if e.C.Lazy && len(ops) >= 2 {
		sys2 := Mount(simdisk.NewState(), e.Cfg)
		lr := RunSession(nil, e.Cfg, full, SessionOpts{ObserveEach: true, CmpProp: e.C.Prop, CloseAtEnd: true, Lazy: true, Sys: sys2})
		sys2.Unmount()
		e.Stats.LazyRuns++
		for _, v := range lr.Viol {
			e.add(Finding{Prop: v.Prop, Msg: "[each call issued without waiting for the pending rotation] " + v.Msg, Ops: full})
		}
	}
}

// runReal replays the sequence on the real filesystem with the real bbolt
// store and requires the same answers step by step (conformance of the
// simulated stack with the production one, and the C05 oracle on production).
func (e *SeqEngine) runReal(full []Op, sim *SessionResult) {
	sys, err := MountReal(e.Cfg)
	if err != nil {
		e.add(Finding{Prop: "INTERNAL", Msg: "cannot make scratch dir: " + err.Error()})
		return
	}
	defer sys.Unmount()
	e.Stats.RealRuns++
	sr := RunSession(nil, e.Cfg, full, SessionOpts{ObserveEach: true, CmpProp: e.C.Prop, CloseAtEnd: true, Sys: sys})
	for _, v := range sr.Viol {
		v.Msg = "[real fs + bbolt] " + v.Msg
		e.add(Finding{Prop: v.Prop, Msg: v.Msg, Ops: full})
	}
	// conformance
	n := len(sr.Errs)
	if len(sim.Errs) != n {
		e.add(Finding{Prop: e.C.Prop, Msg: fmt.Sprintf("simulated and real stacks executed %d vs %d steps", len(sim.Errs), n), Ops: full})
		return
	}
	for i := 0; i < n; i++ {
		if (sr.Errs[i] == nil) != (sim.Errs[i] == nil) {
			e.add(Finding{Prop: e.C.Prop, Msg: fmt.Sprintf("step %d %s: simulated stack returned %v, real stack %v", i+1, full[i], sim.Errs[i], sr.Errs[i]), Ops: full})
		}
	}
	for i := 0; i < len(sr.ObsAfter) && i < len(sim.ObsAfter); i++ {
		if sr.ObsAfter[i].Sig() != sim.ObsAfter[i].Sig() {
			e.add(Finding{Prop: e.C.Prop, Msg: fmt.Sprintf("after step %d %s: simulated stack shows %s, real stack shows %s", i+1, full[i], sim.ObsAfter[i].Sig(), sr.ObsAfter[i].Sig()), Ops: full})
		}
	}
}

// ---------------------------------------------------------------------------
// Metrics model (C20)

// Expect holds the totals the harness knows to be true because it issued the calls.
type Expect struct {
	Appends, EntriesWritten, BytesWritten uint64
	EntriesRead, BytesRead                uint64
	StableGets, StableSets                uint64
	HeadTrunc, TailTrunc                  uint64
	Rotations                             uint64
}

type MetricsModel struct {
	Collector *metrics.AtomicCollector
	Exp       Expect
	prev      *Model
	sealed    int
}

func NewMetricsModel() *MetricsModel {
	return &MetricsModel{Collector: metrics.NewAtomicCollector(wal.MetricDefinitions), prev: NewModel()}
}

func uvarintLen(x uint64) int {
	n := 1
	for x >= 0x80 {
		x >>= 7
		n++
	}
	return n
}

// EncodedSize is the length of the documented BinaryCodec encoding, computed
// independently of the codec.
func EncodedSize(l *raft.Log) int {
	n := uvarintLen(l.Index) + uvarintLen(l.Term) + uvarintLen(uint64(l.Type))
	n += uvarintLen(uint64(len(l.Data))) + len(l.Data)
	n += uvarintLen(uint64(len(l.Extensions))) + len(l.Extensions)
	_, off := l.AppendedAt.Zone()
	if off%60 != 0 {
		n += 16
	} else {
		n += 15
	}
	return n
}

func countSealed(raw []byte) int {
	st, err := DecodeMeta(raw)
	if err != nil {
		return 0
	}
	n := 0
	for _, s := range st.Segments {
		if !s.SealTime.IsZero() {
			n++
		}
	}
	return n
}

// AfterStep updates the expected totals for the step just executed and
// compares them with the collector.
func (mm *MetricsModel) AfterStep(i int, op Op, err error, s *Sys) []Violation {
	var vs []Violation
	// the model after this step is derived here independently of RunSession's
	nm := mm.prev.Clone()
	rejected := false
	if i > 0 {
		rejected = ApplyModel(nm, op)
		if rejected || err != nil {
			nm = mm.prev
		}
	}
	sealedNow := countSealed(s.MetaRaw())
	switch op.K {
	case "A":
		if err == nil {
			mm.Exp.Appends++
			for _, l := range op.Logs() {
				mm.Exp.EntriesWritten++
				mm.Exp.BytesWritten += uint64(EncodedSize(l))
			}
			if sealedNow > mm.sealed {
				mm.Exp.Rotations += uint64(sealedNow - mm.sealed)
			}
		}
	case "D":
		if err == nil && !rejected {
			removed := uint64(len(mm.prev.E) - len(nm.E))
			if removed > 0 {
				if op.Min <= mm.prev.First {
					mm.Exp.HeadTrunc += removed
				} else {
					mm.Exp.TailTrunc += removed
				}
			}
		}
	case "S", "U":
		mm.Exp.StableSets++
	}
	mm.sealed = sealedNow
	mm.prev = nm
	sum := mm.Collector.Summary()
	chk := func(name string, want uint64) {
		if got := sum.Counters[name]; got != want {
			vs = append(vs, Violation{Prop: "C20", Msg: fmt.Sprintf("after step %d %s: counter %s = %d, true total %d", i, op, name, got, want)})
		}
	}
	e := mm.Exp
	chk("log_appends", e.Appends)
	chk("log_entries_written", e.EntriesWritten)
	chk("log_entry_bytes_written", e.BytesWritten)
	chk("log_entries_read", e.EntriesRead)
	chk("log_entry_bytes_read", e.BytesRead)
	chk("stable_gets", e.StableGets)
	chk("stable_sets", e.StableSets)
	chk("head_truncations", e.HeadTrunc)
	chk("tail_truncations", e.TailTrunc)
	chk("segment_rotations", e.Rotations)
	return vs
}

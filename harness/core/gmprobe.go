package core

import (
	"fmt"
	"unsafe"

	gm "github.com/hashicorp/go-metrics/compat"
	wal "github.com/hashicorp/raft-wal"
	"github.com/hashicorp/raft-wal/metrics"
)

// GoMetricsProbe is a go-metrics sink behind metrics.NewGoMetricsCollector with a non-empty prefix. It keeps
// every key slice it is handed and checks (a) that the key is prefix + a name of the published definitions and
// (b) that no two keys share memory: observations are made from several goroutines, so a name built in a slot
// shared between calls is a data race even when every call taken alone reads fine. Both checks are
// independent of the schedule.
type GoMetricsProbe struct {
	Collector *metrics.GoMetricsCollector
	prefix    []string
	declared  map[string]bool
	keys      [][]string
	seen      map[unsafe.Pointer]int
	Viol      []string
}

func NewGoMetricsProbe() *GoMetricsProbe {
	p := &GoMetricsProbe{prefix: []string{"app", "wal"}, declared: map[string]bool{}, seen: map[unsafe.Pointer]int{}}
	for _, d := range wal.MetricDefinitions.Counters {
		p.declared[d.Name] = true
	}
	for _, d := range wal.MetricDefinitions.Gauges {
		p.declared[d.Name] = true
	}
	conf := gm.DefaultConfig("")
	conf.EnableHostname = false
	conf.EnableHostnameLabel = false
	conf.EnableServiceLabel = false
	conf.EnableRuntimeMetrics = false
	conf.EnableTypePrefix = false
	m, err := gm.New(conf, p)
	if err != nil {
		p.Viol = append(p.Viol, "INTERNAL go-metrics: "+err.Error())
		return p
	}
	// the prefix slice is handed over with spare capacity, as a caller that built it with append may well do
	pre := make([]string, 2, 8)
	copy(pre, p.prefix)
	p.Collector = metrics.NewGoMetricsCollector(pre, nil, m)
	return p
}

func (p *GoMetricsProbe) observe(kind string, key []string) {
	if len(p.Viol) > 8 {
		return
	}
	n := len(key)
	if n < 3 || key[n-3] != "app" || key[n-2] != "wal" || !p.declared[key[n-1]] {
		p.Viol = append(p.Viol, fmt.Sprintf("go-metrics collector with prefix [app wal] emitted %s %v: not the prefix followed by a published metric name", kind, key))
	}
	if n > 0 {
		id := unsafe.Pointer(unsafe.SliceData(key))
		if prev, ok := p.seen[id]; ok {
			p.Viol = append(p.Viol, fmt.Sprintf("go-metrics collector: the key slice of observation #%d (%v) shares its memory with the key of observation #%d: names are built in a slot shared between calls (observations come from several goroutines)", len(p.keys)+1, key, prev))
		}
		p.seen[id] = len(p.keys) + 1
	}
	p.keys = append(p.keys, key) // keep it alive: addresses of live slices are unique
}

func (p *GoMetricsProbe) SetGauge(key []string, val float32) { p.observe("gauge", key) }
func (p *GoMetricsProbe) SetGaugeWithLabels(key []string, v float32, _ []gm.Label) {
	p.observe("gauge", key)
}
func (p *GoMetricsProbe) EmitKey(key []string, val float32)     { p.observe("key", key) }
func (p *GoMetricsProbe) IncrCounter(key []string, val float32) { p.observe("counter", key) }
func (p *GoMetricsProbe) IncrCounterWithLabels(key []string, v float32, _ []gm.Label) {
	p.observe("counter", key)
}
func (p *GoMetricsProbe) AddSample(key []string, val float32) { p.observe("sample", key) }
func (p *GoMetricsProbe) AddSampleWithLabels(key []string, v float32, _ []gm.Label) {
	p.observe("sample", key)
}

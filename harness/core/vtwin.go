package core

import (
	"bytes"
	"encoding/binary"
	"errors"
	"fmt"

	"github.com/hashicorp/raft"
	"github.com/hashicorp/raft-wal/metrics"
	"github.com/hashicorp/raft-wal/verifier"

	"verif/shim/vsched"
	"verif/simdisk"
)

// TOp is one step of a middleware-vs-twin sequence.
type TOp struct {
	K   string `json:"k"` // A append, D delete range
	N   int    `json:"n,omitempty"`
	Gap bool   `json:"gap,omitempty"` // A: start one index too far (must be refused by the store)
	CP  string `json:"cp,omitempty"`  // A: last entry is a checkpoint: "empty", "valid", "foreign", "short"
	CP2 bool   `json:"cp2,omitempty"` // A: first entry of a 2-batch is a checkpoint too
	Min uint64 `json:"min,omitempty"`
	Max uint64 `json:"max,omitempty"`
	// A: the store under the middleware fails this StoreLogs once, storing nothing; the caller then
	// submits the same entries again (as raft does). The twin sees one successful append.
	Fail bool `json:"fail,omitempty"`
}

// failOnceStore fails the next StoreLogs when armed.
type failOnceStore struct {
	raft.LogStore
	fail   bool
	closer func() error
}

func (f *failOnceStore) StoreLogs(logs []*raft.Log) error {
	if f.fail {
		f.fail = false
		return errors.New("injected store failure")
	}
	return f.LogStore.StoreLogs(logs)
}

func (f *failOnceStore) StoreLog(l *raft.Log) error { return f.StoreLogs([]*raft.Log{l}) }
func (f *failOnceStore) Close() error               { return f.closer() }

func (o TOp) String() string {
	if o.K == "D" {
		return fmt.Sprintf("D(%d,%d)", o.Min, o.Max)
	}
	s := fmt.Sprintf("A(%d", o.N)
	if o.Gap {
		s += ",gap"
	}
	if o.CP != "" {
		s += ",cp=" + o.CP
	}
	if o.CP2 {
		s += ",cp2"
	}
	if o.Fail {
		s += ",fail+retry"
	}
	return s + ")"
}

func validExt(start, sum uint64) []byte {
	var b [24]byte
	binary.LittleEndian.PutUint64(b[0:8], verifier.ExtensionMagicPrefix)
	binary.LittleEndian.PutUint64(b[8:16], start)
	binary.LittleEndian.PutUint64(b[16:24], sum)
	return b[:]
}

// rehomeBatch re-slices Data and Extensions of every entry out of one shared buffer, in order.
func rehomeBatch(logs []*raft.Log) {
	n := 0
	for _, l := range logs {
		n += len(l.Data) + len(l.Extensions)
	}
	buf := make([]byte, 0, n+64) // a receive buffer is longer than the batch decoded from it
	type span struct{ a, b, c int }
	var sp []span
	for _, l := range logs {
		a := len(buf)
		buf = append(buf, l.Data...)
		b := len(buf)
		buf = append(buf, l.Extensions...)
		sp = append(sp, span{a, b, len(buf)})
	}
	for i, l := range logs {
		l.Data = buf[sp[i].a:sp[i].b]
		l.Extensions = buf[sp[i].b:sp[i].c]
	}
}

// TwinResult is what one sequence produced.
type TwinResult struct {
	Viol        []Violation
	Checkpoints int
	Delivered   int
	Dropped     int
	FinalSig    string
}

// RunTwin drives the same operations through verifier.LogStore over a WAL and
// directly on an identical twin WAL.
func RunTwin(ops []TOp, cfg Config) *TwinResult {
	out := &TwinResult{}
	bad := func(f string, a ...interface{}) {
		out.Viol = append(out.Viol, Violation{Prop: "C18", Msg: fmt.Sprintf(f, a...)})
	}
	res := vsched.Run(vsched.DefaultChooser{}, 0, false, func() {
		a := Mount(simdisk.NewState(), cfg)
		b := Mount(simdisk.NewState(), cfg)
		defer a.Unmount()
		defer b.Unmount()
		if err := a.Open(); err != nil {
			bad("INTERNAL open: %v", err)
			return
		}
		if err := b.Open(); err != nil {
			bad("INTERNAL open: %v", err)
			return
		}
		mc := metrics.NewAtomicCollector(verifier.MetricDefinitions)
		var reports []verifier.VerificationReport
		fs := &failOnceStore{LogStore: a.W, closer: a.W.Close}
		v := verifier.NewLogStore(fs, isCheckpoint, func(r verifier.VerificationReport) { reports = append(reports, r) }, mc)
		submittedEmptyCP := map[uint64]bool{}
		type cpr struct{ start, end uint64 }
		var cps []cpr
		lastCP := uint64(0)
		seq := 0
		for si, op := range ops {
			var e1, e2 error
			switch op.K {
			case "D":
				e1 = v.DeleteRange(op.Min, op.Max)
				e2 = b.W.DeleteRange(op.Min, op.Max)
			case "A":
				last, _ := b.W.LastIndex()
				next := last + 1
				if op.Gap {
					next++
				}
				var l1, l2 []*raft.Log
				refuse := false
				for i := 0; i < op.N; i++ {
					seq++
					l := &raft.Log{Index: next + uint64(i), Term: 3, Type: raft.LogCommand, Data: []byte(fmt.Sprintf("x%d", seq)), AppendedAt: baseTime}
					isCP := (op.CP != "" && i == op.N-1) || (op.CP2 && i == 0 && op.N > 1)
					if isCP {
						l.Data = []byte(fmt.Sprintf("CP%d", seq))
						kind := op.CP
						if op.CP2 && i == 0 && op.N > 1 {
							kind = "empty"
						}
						switch kind {
						case "valid":
							l.Extensions = validExt(1, 12345)
						case "foreign":
							l.Extensions = bytes.Repeat([]byte{0x0a, 0x42}, 16)
							refuse = true
						case "short":
							l.Extensions = []byte{1, 2, 3}
							refuse = true
						default:
							submittedEmptyCP[l.Index] = true
						}
						if kind != "empty" && kind != "" {
							submittedEmptyCP[l.Index] = false
						}
					}
					if !isCP {
						submittedEmptyCP[l.Index] = false
					}
					l1 = append(l1, l)
					l2 = append(l2, cloneLog(l))
				}
				// what the middleware is handed looks like a batch decoded without copying: Data and Extensions of
				// all entries are consecutive slices of one buffer, so every field (an empty Extensions too) has
				// spare capacity that runs into the bytes of the fields after it
				rehomeBatch(l1)
				if op.Fail && !refuse {
					fs.fail = true
					first := make([]*raft.Log, len(l1))
					for i, l := range l1 {
						first[i] = cloneLog(l)
					}
					if err := v.StoreLogs(first); err == nil {
						bad("step %d %s: the store failed the call but the middleware returned nil", si+1, op)
					}
					fs.fail = false
					vsched.Quiesce()
					if lf, _ := v.LastIndex(); lf != last {
						bad("step %d %s: LastIndex is %d after a StoreLogs that failed (was %d)", si+1, op, lf, last)
					}
				}
				e1 = v.StoreLogs(l1)
				if refuse {
					if e1 == nil {
						bad("step %d %s: a checkpoint whose Extensions hold foreign data was accepted", si+1, op)
					}
					// twin is not driven: the batch must not have reached the store
				} else {
					e2 = b.W.StoreLogs(l2)
					if e1 == nil && e2 == nil {
						for _, l := range l1 {
							if ok, _ := isCheckpoint(l); ok {
								out.Checkpoints++
								st := lastCP
								cps = append(cps, cpr{st, l.Index})
								lastCP = l.Index
							}
						}
					}
				}
				if refuse {
					e2 = e1 // compared below only for nil-ness
				}
			}
			vsched.Quiesce()
			if (e1 == nil) != (e2 == nil) {
				bad("step %d %s: through the middleware err=%v, directly on the store err=%v", si+1, op, e1, e2)
			}
			// observation
			f1, _ := v.FirstIndex()
			f2, _ := b.W.FirstIndex()
			l1, _ := v.LastIndex()
			l2, _ := b.W.LastIndex()
			if f1 != f2 || l1 != l2 {
				bad("step %d %s: First/LastIndex through the middleware %d/%d, twin %d/%d", si+1, op, f1, l1, f2, l2)
				continue
			}
			lo, hi := f2, l2+1
			if lo > 1 {
				lo--
			}
			for i := lo; i <= hi; i++ {
				var g1, g2 raft.Log
				r1 := v.GetLog(i, &g1)
				r2 := b.W.GetLog(i, &g2)
				if (r1 == nil) != (r2 == nil) || (r1 != nil && errors.Is(r1, raft.ErrLogNotFound) != errors.Is(r2, raft.ErrLogNotFound)) {
					bad("step %d %s: GetLog(%d) through the middleware %v, twin %v", si+1, op, i, r1, r2)
					continue
				}
				if r1 != nil {
					continue
				}
				if submittedEmptyCP[i] {
					if len(g1.Extensions) != 24 || binary.LittleEndian.Uint64(g1.Extensions[0:8]) != verifier.ExtensionMagicPrefix {
						bad("step %d %s: leader checkpoint %d stored with Extensions %x, want 24 bytes of verification metadata", si+1, op, i, g1.Extensions)
					}
					g1.Extensions = nil
					g2.Extensions = nil
				}
				if !LogsEqual(&g1, &g2) {
					bad("step %d %s: entry %d through the middleware is %s, twin has %s", si+1, op, i, Fingerprint(&g1), Fingerprint(&g2))
				}
			}
		}
		vsched.Quiesce()
		sum := mc.Summary()
		out.Delivered = len(reports)
		out.Dropped = int(sum.Counters["dropped_reports"])
		if out.Delivered+out.Dropped != out.Checkpoints {
			bad("%d checkpoints stored, %d reports delivered + %d counted drops", out.Checkpoints, out.Delivered, out.Dropped)
		}
		if got := int(sum.Counters["checkpoints_written"]); got != out.Checkpoints {
			out.Viol = append(out.Viol, Violation{Prop: "C20", Msg: fmt.Sprintf("verifier counter checkpoints_written = %d, checkpoints stored = %d", got, out.Checkpoints)})
		}
		if got := int(sum.Counters["ranges_verified"]); got != out.Delivered {
			out.Viol = append(out.Viol, Violation{Prop: "C20", Msg: fmt.Sprintf("verifier counter ranges_verified = %d, reports delivered = %d", got, out.Delivered)})
		}
		checkSkips(reports, bad)
		// nothing was altered anywhere in this run: no report may speak of corruption (C16). Sequences that
		// hand in a "follower" checkpoint with made-up metadata (cp=valid) are excluded: there the sums
		// differ by construction.
		fabricated := false
		for _, op := range ops {
			if op.CP == "valid" {
				fabricated = true
			}
		}
		for _, r := range reports {
			if fabricated {
				break
			}
			var mism verifier.ErrChecksumMismatch
			if errors.As(r.Err, &mism) {
				out.Viol = append(out.Viol, Violation{Prop: "C16", Msg: fmt.Sprintf("false alarm over a real WAL: nothing was altered, yet the report for range %s says: %v", r.Range, r.Err)})
			}
		}
		fl, _ := b.W.FirstIndex()
		ll, _ := b.W.LastIndex()
		out.FinalSig = fmt.Sprintf("[%d,%d] cp=%d del=%d drop=%d", fl, ll, out.Checkpoints, out.Delivered, out.Dropped)
		v.Close()
		b.W.Close()
		vsched.Quiesce()
	})
	for _, p := range res.Panics {
		bad("panic: %s\n%s", p.Val, trimStack(p.Stack))
	}
	if res.Deadlock {
		bad("deadlock: %v", res.Blocked)
	}
	return out
}

// checkSkips: a delivered report whose range does not start where the
// previous delivered one ended must name exactly the gap as SkippedRange;
// otherwise SkippedRange is nil.
func checkSkips(reports []verifier.VerificationReport, bad func(string, ...interface{})) {
	prevEnd := uint64(0)
	for i, r := range reports {
		if i > 0 {
			if r.Range.Start != prevEnd {
				if r.SkippedRange == nil || r.SkippedRange.Start != prevEnd || r.SkippedRange.End != r.Range.Start {
					bad("report %d for %s follows a drop: SkippedRange is %v, want [%d, %d)", i+1, r.Range, r.SkippedRange, prevEnd, r.Range.Start)
				}
			} else if r.SkippedRange != nil {
				bad("report %d for %s names SkippedRange %v although nothing was skipped", i+1, r.Range, r.SkippedRange)
			}
		}
		prevEnd = r.Range.End
	}
}

// ---------------------------------------------------------------------------
// Blocked ReportFn under the schedule explorer.

type BlockedResult struct {
	Viol    []Violation
	History string
}

// RunBlockedReport: a writer stores nCP checkpoints (one per StoreLogs) while
// the report callback blocks on a gate that an opener thread opens at a point
// the scheduler chooses (or never, if open is false).
func RunBlockedReport(ch vsched.Chooser, nCP int, open bool) (*vsched.Result, *BlockedResult) {
	return RunBlockedReportT(ch, nCP, open, false)
}

// RunBlockedReportT: with trunc, the writer afterwards truncates the last checkpoint off the tail (while its
// report may still be queued or running) and stores another checkpoint at that index: one more checkpoint,
// and the truncated one still has to be accounted for.
func RunBlockedReportT(ch vsched.Chooser, nCP int, open, trunc bool) (*vsched.Result, *BlockedResult) {
	out := &BlockedResult{}
	bad := func(f string, a ...interface{}) {
		out.Viol = append(out.Viol, Violation{Prop: "C18", Msg: fmt.Sprintf(f, a...)})
	}
	res := vsched.Run(ch, 20000, false, func() {
		vsched.SetRecording(false)
		store := raft.NewInmemStore()
		mc := metrics.NewAtomicCollector(verifier.MetricDefinitions)
		gate := false
		var reports []verifier.VerificationReport
		inFn := 0
		v := verifier.NewLogStore(store, isCheckpoint, func(r verifier.VerificationReport) {
			inFn++
			vsched.Block(func() bool { return gate }, "reportFn gate")
			reports = append(reports, r)
		}, mc)
		written := 0
		vsched.SetRecording(true)
		vsched.Spawn("writer", func() {
			for i := 1; i <= nCP; i++ {
				l := &raft.Log{Index: uint64(i), Term: 1, Type: raft.LogCommand, Data: []byte(fmt.Sprintf("CP%d", i))}
				if err := v.StoreLogs([]*raft.Log{l}); err != nil {
					bad("StoreLogs(%d) failed: %v", i, err)
					return
				}
				written++
			}
			if trunc {
				if err := v.DeleteRange(uint64(nCP), uint64(nCP)); err != nil {
					bad("DeleteRange(%d,%d) failed: %v", nCP, nCP, err)
					return
				}
				l := &raft.Log{Index: uint64(nCP), Term: 2, Type: raft.LogCommand, Data: []byte(fmt.Sprintf("CP%d again", nCP))}
				if err := v.StoreLogs([]*raft.Log{l}); err != nil {
					bad("StoreLogs(%d) after the truncation failed: %v", nCP, err)
					return
				}
				written++
			}
		})
		if open {
			vsched.Spawn("opener", func() {
				vsched.Yield("open gate")
				gate = true
			})
		}
		vsched.WaitThreads()
		vsched.SetRecording(false)
		if trunc {
			nCP++
		}
		if written != nCP {
			bad("writer stored %d of %d checkpoints", written, nCP)
		}
		vsched.Quiesce()
		sum := mc.Summary()
		dropped := int(sum.Counters["dropped_reports"])
		if open {
			if len(reports)+dropped != nCP {
				bad("%d checkpoints, %d reports delivered + %d counted drops", nCP, len(reports), dropped)
			}
			if !trunc {
				checkSkips(reports, bad)
			}
		} else {
			// gate never opens: one report is stuck inside the callback, at most one waits in the channel
			if len(reports) != 0 {
				bad("report delivered although the callback never returned")
			}
			if inFn+dropped > nCP || inFn+dropped < nCP-1 {
				bad("%d checkpoints, %d in the callback + %d counted drops (one more may be queued)", nCP, inFn, dropped)
			}
		}
		out.History = fmt.Sprintf("delivered=%d dropped=%d infn=%d", len(reports), dropped, inFn)
		if open {
			v.Close()
			vsched.Quiesce()
		}
	})
	for _, p := range res.Panics {
		bad("panic: %s\n%s", p.Val, trimStack(p.Stack))
	}
	if res.Deadlock {
		bad("StoreLogs blocked by the report callback (deadlock: %v)", res.Blocked)
	}
	return res, out
}

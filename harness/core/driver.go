package core

import (
	"errors"
	"fmt"
	"sort"
	"strings"

	"encoding/json"
	"os"

	"github.com/hashicorp/go-hclog"
	"github.com/hashicorp/raft"
	wal "github.com/hashicorp/raft-wal"
	"github.com/hashicorp/raft-wal/fs"
	"github.com/hashicorp/raft-wal/metadb"
	"github.com/hashicorp/raft-wal/metrics"
	"github.com/hashicorp/raft-wal/segment"
	"github.com/hashicorp/raft-wal/types"

	"verif/simdisk"
)

// Op is one step of a workload; it is fully concrete so that a replay file
// needs nothing else.
type Op struct {
	K     string `json:"k"`               // A append, D delete-range, S set, U set-uint64, R clean reopen, G get (stable)
	Idx   uint64 `json:"idx,omitempty"`   // A: first index
	Sizes []int  `json:"sizes,omitempty"` // A: payload size per entry
	Gen   int    `json:"gen,omitempty"`   // A: generation tag of the contents
	Skip  int    `json:"skip,omitempty"`  // A: gap inserted after the first entry (internally non-consecutive batch)
	Min   uint64 `json:"min,omitempty"`
	Max   uint64 `json:"max,omitempty"`
	Key   string `json:"key,omitempty"`
	Val   []byte `json:"val,omitempty"`
	Nil   bool   `json:"nil,omitempty"` // S: value is nil
	U64   uint64 `json:"u64,omitempty"`
}

func (o Op) String() string {
	switch o.K {
	case "A":
		s := fmt.Sprintf("A(%d,g%d,%v)", o.Idx, o.Gen, o.Sizes)
		if o.Skip > 0 {
			s += fmt.Sprintf("skip%d", o.Skip)
		}
		return s
	case "D":
		return fmt.Sprintf("D(%d,%d)", o.Min, o.Max)
	case "S":
		if o.Nil {
			return fmt.Sprintf("S(%s,nil)", o.Key)
		}
		return fmt.Sprintf("S(%s,%x)", o.Key, o.Val)
	case "U":
		return fmt.Sprintf("U(%s,%d)", o.Key, o.U64)
	case "R":
		if o.U64 == 1 {
			return "R(other-segment-size)"
		}
	}
	return o.K
}

func OpsString(ops []Op) string {
	ss := make([]string, len(ops))
	for i, o := range ops {
		ss[i] = o.String()
	}
	return strings.Join(ss, " ")
}

// Logs materialises the entries of an append op.
func (o Op) Logs() []*raft.Log {
	var out []*raft.Log
	idx := o.Idx
	for i, sz := range o.Sizes {
		out = append(out, MkLog(idx, o.Gen, sz))
		idx++
		if i == 0 && o.Skip > 0 {
			idx += uint64(o.Skip)
		}
	}
	return out
}

// Config is a WAL configuration under test.
type Config struct {
	SegSize int `json:"seg_size"`
	// EagerEOF: the file system reports io.EOF together with a full read that ends at the end of the file
	EagerEOF bool `json:"eager_eof,omitempty"`
}

// Sys is one WAL instance, on a simulated disk (Disk != nil) or on the real
// filesystem with the real bbolt metadata store (Real).
type Sys struct {
	Disk         *simdisk.Disk
	Dir          string
	Real         bool
	Cfg          Config
	W            *wal.WAL
	Meta         *SimMeta
	Rec          *RecMeta
	MC           metrics.Collector
	Codec        wal.Codec // optional custom codec
	CreateViol   []string  // what createCheckVFS saw
	MetaCloseErr bool      // the metadata store's Close fails (once)
	Cnt          *Expect   // if set, API calls made by the harness are tallied here (metrics oracle)
}

// RecMeta wraps the production BoltMetaDB and remembers the last state that
// was loaded or committed, so that the harness can compare the directory with
// the metadata without opening the (locked) bolt file a second time.
type RecMeta struct {
	Inner *metadb.BoltMetaDB
	Last  types.PersistentState
	Has   bool
}

func (r *RecMeta) Load(dir string) (types.PersistentState, error) {
	st, err := r.Inner.Load(dir)
	if err == nil {
		r.Last, r.Has = st, true
	}
	return st, err
}
func (r *RecMeta) CommitState(st types.PersistentState) error {
	err := r.Inner.CommitState(st)
	if err == nil {
		r.Last, r.Has = st, true
	}
	return err
}
func (r *RecMeta) GetStable(k []byte) ([]byte, error) { return r.Inner.GetStable(k) }
func (r *RecMeta) SetStable(k, v []byte) error        { return r.Inner.SetStable(k, v) }
func (r *RecMeta) Close() error                       { return r.Inner.Close() }

// ScratchRoot is where real-filesystem scratch directories are made.
func ScratchRoot() string {
	if fi, err := os.Stat("/dev/shm"); err == nil && fi.IsDir() {
		return "/dev/shm"
	}
	return os.TempDir()
}

// MountReal makes an empty scratch directory on the real filesystem.
func MountReal(cfg Config) (*Sys, error) {
	dir, err := os.MkdirTemp(ScratchRoot(), "verif-real-")
	if err != nil {
		return nil, err
	}
	return &Sys{Dir: dir, Real: true, Cfg: cfg}, nil
}

// MetaRaw returns the JSON of the metadata record as last committed.
func (s *Sys) MetaRaw() []byte {
	if s.Real {
		if s.Rec == nil || !s.Rec.Has {
			return nil
		}
		b, _ := json.Marshal(s.Rec.Last)
		return b
	}
	b, _ := s.Disk.MetaLoad()
	return b
}

// List returns the directory listing, sorted.
func (s *Sys) List() []string {
	if s.Real {
		es, _ := os.ReadDir(s.Dir)
		var out []string
		for _, e := range es {
			out = append(out, e.Name())
		}
		sort.Strings(out)
		return out
	}
	ls, _ := s.Disk.ListDir()
	return ls
}

var nullLogger = hclog.NewNullLogger()

var mountSeq int

// Mount puts a durable state on a fresh simulated disk.
func Mount(st *simdisk.State, cfg Config) *Sys {
	mountSeq++
	d := simdisk.NewDisk(fmt.Sprintf("m%d", mountSeq), st)
	d.EagerEOF = cfg.EagerEOF
	dir := simdisk.Register(d)
	return &Sys{Disk: d, Dir: dir, Cfg: cfg}
}

func (s *Sys) Unmount() {
	if s.Real {
		os.RemoveAll(s.Dir)
		return
	}
	simdisk.Unregister(s.Disk)
}

// sliceOf builds a slice whose element type need not be nameable here (the option type of wal.Open is unexported).
func sliceOf[T any](v ...T) []T { return v }

// Open opens the WAL (real wal + segment + fs packages, simulated OS, simMeta).
func (s *Sys) Open() error {
	var ms types.MetaStore
	if s.Real {
		s.Rec = &RecMeta{Inner: &metadb.BoltMetaDB{}}
		ms = s.Rec
	} else {
		s.Meta = NewSimMeta(s.Disk)
		s.Meta.CloseErr = s.MetaCloseErr
		ms = s.Meta
	}
	var w *wal.WAL
	var err error
	// unless the engine brings its own collector, the WAL runs with the bundled validating collector built from
	// the published definitions: a metric emitted under a name that is not declared (or declared as the other
	// kind) panics, on whatever path - recovery, error handling, background rotation - it is emitted
	mc := s.MC
	if mc == nil {
		mc = metrics.NewAtomicCollector(wal.MetricDefinitions)
	}
	opts := sliceOf(wal.WithMetaStore(ms), wal.WithSegmentSize(s.Cfg.SegSize), wal.WithLogger(nullLogger), wal.WithMetricsCollector(mc))
	if s.Codec != nil {
		opts = append(opts, wal.WithCodec(s.Codec))
	}
	if !s.Real {
		// the production filer over the production fs package, with one observation point: what Create hands out
		opts = append(opts, wal.WithSegmentFiler(segment.NewFiler(s.Dir, &createCheckVFS{VFS: fs.New(), s: s})))
	}
	w, err = wal.Open(s.Dir, opts...)
	if err != nil {
		s.W = nil
		return err
	}
	s.W = w
	return nil
}

// createCheckVFS passes everything through to the production fs package and looks at the file a successful
// Create hands out: it must have the requested size and hold only zeros (C07, "created ... zero-filled to the
// requested size"). A Create that reports an error promises nothing.
type createCheckVFS struct {
	types.VFS
	s *Sys
}

func (v *createCheckVFS) Create(dir, name string, size uint64) (types.WritableFile, error) {
	f, err := v.VFS.Create(dir, name, size)
	if err == nil && v.s.Disk != nil {
		img := v.s.Disk.Volatile()
		b, ok := img.Files[name]
		switch {
		case !ok:
			v.s.CreateViol = append(v.s.CreateViol, fmt.Sprintf("Create(%s, %d) returned nil but there is no such file", name, size))
		case uint64(len(b)) < size:
			v.s.CreateViol = append(v.s.CreateViol, fmt.Sprintf("Create(%s, %d) returned nil but the file is %d bytes long (not preallocated to the requested size)", name, size, len(b)))
		default:
			for i, x := range b {
				if x != 0 {
					v.s.CreateViol = append(v.s.CreateViol, fmt.Sprintf("Create(%s, %d) returned nil but byte %d of the new file is %#x, not zero", name, size, i, x))
					break
				}
			}
		}
	}
	return f, err
}

// Apply runs one op against the WAL and returns its error.
func (s *Sys) Apply(o Op) error {
	switch o.K {
	case "A":
		return s.W.StoreLogs(o.Logs())
	case "D":
		return s.W.DeleteRange(o.Min, o.Max)
	case "S":
		if o.Nil {
			return s.W.Set([]byte(o.Key), nil)
		}
		return s.W.Set([]byte(o.Key), o.Val)
	case "U":
		return s.W.SetUint64([]byte(o.Key), o.U64)
	case "R":
		if err := s.W.Close(); err != nil {
			return fmt.Errorf("close: %w", err)
		}
		if o.U64 == 1 {
			// reopen with another configured segment size (existing segments keep theirs)
			if s.Cfg.SegSize == 64 {
				s.Cfg.SegSize = 128
			} else {
				s.Cfg.SegSize = 64
			}
		}
		return s.Open()
	}
	return fmt.Errorf("unknown op %q", o.K)
}

// ApplyModel applies o to the model; reject=true means the implementation
// must return an error and leave everything unchanged.
func ApplyModel(m *Model, o Op) (reject bool) {
	switch o.K {
	case "A":
		return m.Append(o.Logs()) != nil
	case "D":
		return m.DeleteRange(o.Min, o.Max) != nil
	case "S":
		if o.Nil {
			m.SetStable(o.Key, nil)
		} else {
			m.SetStable(o.Key, o.Val)
		}
	case "U":
		var b [8]byte
		for i := 0; i < 8; i++ {
			b[i] = byte(o.U64 >> (8 * uint(i)))
		}
		m.SetStable(o.Key, b[:])
		m.U64[o.Key] = true
	}
	return false
}

// ---------------------------------------------------------------------------
// Observation

type Obs struct {
	OpenErr string            `json:"open_err,omitempty"`
	First   uint64            `json:"first"`
	Last    uint64            `json:"last"`
	IdxErr  string            `json:"idx_err,omitempty"`
	Lo      uint64            `json:"lo"`
	Entries []string          `json:"entries"` // entries[i] describes index Lo+i: fingerprint, "NF", or "ERR:..."
	Stable  map[string]string `json:"stable,omitempty"`
	U64     map[string]string `json:"u64,omitempty"`
	Listing []string          `json:"listing,omitempty"`
	logs    map[uint64]*raft.Log
}

const NF = "NF"

// StableKeys are the keys every observation reads.
var StableKeys = []string{"k1", "k2"}

// Observe reads everything the public API shows: first, last, every index in
// [lo-2, hi+2] where lo/hi span both the observed range and the hint range.
func (s *Sys) Observe(hintFirst, hintLast uint64) *Obs {
	o := &Obs{logs: map[uint64]*raft.Log{}}
	f, err := s.W.FirstIndex()
	if err != nil {
		o.IdxErr = "FirstIndex: " + err.Error()
	}
	l, err := s.W.LastIndex()
	if err != nil {
		o.IdxErr += " LastIndex: " + err.Error()
	}
	o.First, o.Last = f, l
	lo, hi := f, l
	if hintLast > 0 {
		if lo == 0 || (hintFirst > 0 && hintFirst < lo) {
			lo = hintFirst
		}
		if hintLast > hi {
			hi = hintLast
		}
	}
	if lo > 2 {
		lo -= 2
	} else {
		lo = 0
	}
	hi += 2
	o.Lo = lo
	for i := lo; i <= hi; i++ {
		var lg raft.Log
		err := s.W.GetLog(i, &lg)
		if s.Cnt != nil {
			s.Cnt.EntriesRead++
			if err == nil {
				s.Cnt.BytesRead += uint64(EncodedSize(&lg))
			}
		}
		switch {
		case err == nil:
			o.Entries = append(o.Entries, Fingerprint(&lg))
			c := lg
			o.logs[i] = &c
		case errors.Is(err, raft.ErrLogNotFound):
			o.Entries = append(o.Entries, NF)
		default:
			o.Entries = append(o.Entries, "ERR:"+err.Error())
		}
	}
	o.Stable = map[string]string{}
	for _, k := range StableKeys {
		v, err := s.W.Get([]byte(k))
		if s.Cnt != nil {
			s.Cnt.StableGets++
		}
		if err != nil {
			o.Stable[k] = "ERR:" + err.Error()
		} else if len(v) > 0 {
			o.Stable[k] = fmt.Sprintf("%x", v)
		}
	}
	o.U64 = map[string]string{}
	for _, k := range StableKeys {
		v, err := s.W.GetUint64([]byte(k))
		if s.Cnt != nil {
			s.Cnt.StableGets++
		}
		if err != nil {
			o.U64[k] = "ERR"
		} else {
			o.U64[k] = fmt.Sprint(v)
		}
	}
	for _, n := range s.List() {
		if n != metadb.FileName {
			o.Listing = append(o.Listing, n)
		}
	}
	return o
}

func (o *Obs) Entry(i uint64) string {
	if i < o.Lo || i >= o.Lo+uint64(len(o.Entries)) {
		return "UNREAD"
	}
	return o.Entries[i-o.Lo]
}

func (o *Obs) Sig() string {
	var b strings.Builder
	fmt.Fprintf(&b, "open=%q [%d,%d] lo=%d %v st=", o.OpenErr, o.First, o.Last, o.Lo, o.Entries)
	ks := make([]string, 0, len(o.Stable))
	for k := range o.Stable {
		ks = append(ks, k)
	}
	sort.Strings(ks)
	for _, k := range ks {
		fmt.Fprintf(&b, "%s=%s;", k, o.Stable[k])
	}
	fmt.Fprintf(&b, " ls=%v", o.Listing)
	return b.String()
}

// ModelFromObs rebases a model on what a recovery showed.
func ModelFromObs(o *Obs, prev *Model) *Model {
	m := NewModel()
	if prev != nil {
		for k, v := range prev.Hist {
			m.Hist[k] = v
		}
		for k, v := range prev.Truncated {
			m.Truncated[k] = v
		}
		m.Deleted = prev.Deleted
		m.PrevLast = prev.PrevLast
		for k, v := range prev.U64 {
			m.U64[k] = v
		}
	}
	m.First, m.Last = o.First, o.Last
	if o.Last > 0 {
		for i := o.First; i <= o.Last; i++ {
			if l := o.logs[i]; l != nil {
				m.E[i] = l
				if prev != nil && prev.Acked[i] && prev.E[i] != nil && LogsEqual(prev.E[i], l) {
					m.Acked[i] = true
				}
			}
		}
	}
	for k, v := range o.Stable {
		var b []byte
		fmt.Sscanf(v, "%x", &b)
		m.Stable[k] = b
	}
	return m
}

// Violation is one oracle clause that failed.
type Violation struct {
	Prop string `json:"prop"`
	Msg  string `json:"msg"`
}

// CompareExact checks an in-process or post-reopen observation against a
// single model (no crash involved). prop is the property a mismatch is
// attributed to.
func CompareExact(o *Obs, m *Model, prop string) []Violation {
	var vs []Violation
	add := func(f string, a ...interface{}) { vs = append(vs, Violation{Prop: prop, Msg: fmt.Sprintf(f, a...)}) }
	if o.IdxErr != "" {
		add("index query failed: %s", o.IdxErr)
	}
	if o.First != m.First || o.Last != m.Last {
		add("FirstIndex/LastIndex = %d/%d, model %d/%d", o.First, o.Last, m.First, m.Last)
	}
	for i := o.Lo; i < o.Lo+uint64(len(o.Entries)); i++ {
		got := o.Entry(i)
		want := NF
		if m.Last > 0 && i >= m.First && i <= m.Last {
			want = Fingerprint(m.E[i])
		}
		if got != want {
			add("GetLog(%d) = %s, model %s", i, got, want)
		}
	}
	return vs
}

func CompareStable(o *Obs, ms []*Model) []Violation {
	for _, m := range ms {
		ok := true
		for _, k := range StableKeys {
			want := ""
			if v, has := m.Stable[k]; has && len(v) > 0 {
				want = fmt.Sprintf("%x", v)
			}
			if o.Stable[k] != want {
				ok = false
			}
			if o.U64 != nil && (m.U64[k] || len(m.Stable[k]) == 0) {
				v := m.Stable[k]
				wu := "ERR"
				switch len(v) {
				case 0:
					wu = "0"
				case 8:
					var x uint64
					for i := 7; i >= 0; i-- {
						x = x<<8 | uint64(v[i])
					}
					wu = fmt.Sprint(x)
				}
				if o.U64[k] != wu {
					ok = false
				}
			}
		}
		if ok {
			return nil
		}
	}
	return []Violation{{Prop: "C08", Msg: fmt.Sprintf("stable store Get=%v GetUint64=%v matches no legal model (%s)", o.Stable, o.U64, stableSigs(ms))}}
}

func stableSigs(ms []*Model) string {
	var ss []string
	for _, m := range ms {
		ss = append(ss, "{"+m.StableSig()+"}")
	}
	return strings.Join(ss, " | ")
}

// ExpectedListing derives the directory listing the metadata implies.
func ExpectedListing(raw []byte) ([]string, error) {
	st, err := DecodeMeta(raw)
	if err != nil {
		return nil, err
	}
	var out []string
	for _, si := range st.Segments {
		out = append(out, segment.FileName(si))
	}
	sort.Strings(out)
	return out, nil
}

package core

import (
	"fmt"
	"os"
	"syscall"

	"github.com/hashicorp/raft"

	"verif/shim/vsched"
	"verif/simdisk"
)

// FaultPlan describes one injected I/O fault.
type FaultPlan struct {
	At         int               `json:"at"`   // index of the faultable I/O step (create, prealloc, pwrite, fsync, dir fsync, unlink, metadata commit, stable set, list, load)
	Kind       simdisk.FaultKind `json:"kind"` // 1 clean, 2 after-effect, 3 short write
	Persistent bool              `json:"persistent"`
	// UntilReturn: from the failing step on every I/O step of any kind fails (the device is gone) until the
	// API call in which it happened returns; after that the device is healthy again.
	UntilReturn bool `json:"until_return,omitempty"`
	// Errno: the injected error is this errno instead of a generic one ("EINTR": a call interrupted by a signal)
	Errno string `json:"errno,omitempty"`
}

func (f FaultPlan) String() string {
	k := map[simdisk.FaultKind]string{simdisk.FaultClean: "clean", simdisk.FaultAfter: "after-effect", simdisk.FaultShort: "short", simdisk.FaultShortEOF: "short+EOF"}[f.Kind]
	p := "transient"
	if f.Persistent {
		p = "persistent"
	}
	if f.UntilReturn {
		p = "everything-fails-until-the-call-returns"
	}
	if f.Errno != "" {
		p += "/" + f.Errno
	}
	return fmt.Sprintf("fault@%d/%s/%s", f.At, k, p)
}

// FaultFinalHook, when set, is called at the very end of a fault run (fault cleared, two clean reopens done,
// WAL closed) with the system and the model of what the last reopen showed.
var FaultFinalHook func(s *Sys, shown *Model) []Violation

type FaultResult struct {
	Viol        []Violation
	FaultOps    int    // faultable steps seen (in the fault-free dry run this sizes the enumeration)
	HitOp       string // the step that failed
	Failed      int    // calls that returned an error
	Outcome     string
	CrashImages int // images of a power loss at the end of the run that were recovered and compared
}

func modelSetSig(ms []*Model) string {
	s := ""
	for _, m := range ms {
		s += "{" + m.Sig() + " st:" + m.StableSig() + "} "
	}
	return s
}

func dedupeModels(ms []*Model) []*Model {
	seen := map[string]bool{}
	var out []*Model
	for _, m := range ms {
		k := m.Sig() + "|" + m.StableSig()
		if !seen[k] {
			seen[k] = true
			out = append(out, m)
		}
	}
	return out
}

// RunFault executes Open + ops (+ a continuation) with one injected fault,
// then clears the fault, reopens cleanly and compares.
//
// vis = models legal for readers in the running process; dur = models legal
// after the next clean reopen. A call that returns an error may or may not have
// been applied (dur grows), its entries must not be visible (vis unchanged for
// appends); after a call that succeeds the durable candidates are exactly the
// visible ones with the call applied.
func RunFault(cfg Config, ops []Op, cont func(m *Model, failed *Op) []Op, fp *FaultPlan) *FaultResult {
	out := &FaultResult{}
	bad := func(f string, a ...interface{}) {
		out.Viol = append(out.Viol, Violation{Prop: "C10", Msg: fmt.Sprintf(f, a...)})
	}
	sys := Mount(simdisk.NewState(), cfg)
	defer sys.Unmount()
	d := sys.Disk
	d.FaultReads = true
	d.FaultFileReads = true
	if fp != nil {
		d.FaultAt, d.FaultKind, d.FaultPersistent, d.FaultAll = fp.At, fp.Kind, fp.Persistent, fp.UntilReturn
		if fp.Errno == "EINTR" {
			simdisk.InjectedErr = syscall.EINTR
			defer func() { simdisk.InjectedErr = nil }()
		}
	}
	res := vsched.Run(vsched.DefaultChooser{}, 0, false, func() {
		defer func() {
			// evaluated when the whole run, including the clean reopens, is over
			for _, m := range sys.CreateViol {
				out.Viol = append(out.Viol, Violation{Prop: "C07", Msg: m})
			}
			if len(d.CreateExist) > 0 {
				out.Viol = append(out.Viol, Violation{Prop: "C13", Msg: fmt.Sprintf("segment creation collided with a file that already carries that name (a segment ID was handed out twice): %v", d.CreateExist)})
			}
		}()
		vis := []*Model{NewModel()}
		dur := []*Model{NewModel()}
		// appends that returned an error since the last successful reopen: their bytes may sit in the tail
		// file, and "applied in full or not at all after reopen" puts no order between such an append and the
		// calls made after it, so a reopen may also show them applied on top of a later candidate
		var failedAppends []Op
		withLate := func(ms []*Model) []*Model {
			out := append([]*Model{}, ms...)
			for _, m := range ms {
				for _, fa := range failedAppends {
					n := m.Clone()
					if !ApplyModel(n, fa) {
						out = append(out, n)
					}
				}
			}
			return dedupeModels(out)
		}
		opened := false
		tryOpen := func(what string) bool {
			err := sys.Open()
			vsched.Quiesce()
			if err != nil {
				out.Failed++
				return false
			}
			opened = true
			return true
		}
		var checkOn func(on *Sys, what string, legal []*Model) *Obs
		check := func(what string, legal []*Model) *Obs { return checkOn(sys, what, legal) }
		checkOn = func(on *Sys, what string, legal []*Model) *Obs {
			hf, hl := uint64(0), uint64(0)
			for _, m := range legal {
				if m.Last > hl {
					hl = m.Last
				}
				if m.First > 0 && (hf == 0 || m.First < hf) {
					hf = m.First
				}
			}
			d.FaultPaused = true
			o := on.Observe(hf, hl)
			d.FaultPaused = false
			okLog, okStable := false, false
			for _, m := range legal {
				if len(CompareExact(o, m, "")) == 0 {
					okLog = true
				}
				if len(CompareStable(o, []*Model{m})) == 0 {
					okStable = true
				}
			}
			if !okLog {
				bad("%s: WAL shows %s, legal %s", what, o.Sig(), modelSetSig(legal))
			} else if !okStable {
				out.Viol = append(out.Viol, Violation{Prop: "C08", Msg: fmt.Sprintf("%s: stable store shows %v, legal %s", what, o.Stable, modelSetSig(legal))})
			}
			return o
		}
		trace := os.Getenv("VERIF_TRACE") != ""
		defer func() {
			if trace {
				for i, o := range d.Log {
					fmt.Printf("    log[%d] %s\n", i, o.String())
				}
			}
		}()
		apply := func(i int, op Op) *Op {
			if !opened {
				if !tryOpen("open") {
					return nil
				}
			}
			logFrom := len(d.Log)
			err := sys.Apply(op)
			if err == nil && op.K == "A" {
				// the durability discipline at this acknowledgement, whatever failed earlier: every byte written for
				// the call is followed by an fsync of its file, and a file it wrote to that was created since the
				// last directory fsync has had one by now (a crash right here must not lose what was acknowledged)
				written := map[int]bool{}
				for _, o := range d.Log[logFrom:] {
					if o.Kind == simdisk.OpWrite {
						written[o.Ino] = true
					}
				}
				if len(written) > 0 {
					r := simdisk.NewReplay(simdisk.NewState(), d.BaseIno)
					for _, o := range d.Log {
						r.Apply(o)
					}
					for ino := range written {
						if n, cp, name := r.Unsynced(ino); n > 0 {
							out.Viol = append(out.Viol, Violation{Prop: "C07", Msg: fmt.Sprintf("step %d %s returned nil while %d 8-byte chunks written to file #%d are not followed by an fsync of that file", i, op, n, ino)})
						} else if cp {
							out.Viol = append(out.Viol, Violation{Prop: "C07", Msg: fmt.Sprintf("step %d %s returned nil after writing into %s, whose creation is not followed by a successful fsync of the directory: a power loss now loses the file and the entries just acknowledged", i, op, name)})
						}
					}
				}
			}
			if trace {
				d.Mark(simdisk.OpNote, i, fmt.Sprintf("step %d %s returned %v (faultable steps so far %d)", i, op, err, d.FaultOps))
			}
			vsched.Quiesce()
			if fp != nil && fp.UntilReturn && d.FaultHit != nil {
				d.FaultAt, d.FaultAll = -1, false // the device is back
			}
			if op.K == "R" && err != nil {
				opened = false
				sys.W = nil
			}
			var nvis, ndur []*Model
			if err == nil {
				for _, m := range vis {
					n := m.Clone()
					if !ApplyModel(n, op) {
						nvis = append(nvis, n)
					}
				}
				if len(nvis) == 0 {
					bad("step %d %s returned nil although no legal state accepts it (%s)", i, op, modelSetSig(vis))
					nvis = vis
				}
				// durable candidates: the call applied to every candidate that accepts it
				// (candidates in which an earlier failed append of the same index "took" drop out here)
				ndur = append([]*Model{}, nvis...)
				for _, m := range dur {
					n := m.Clone()
					if !ApplyModel(n, op) {
						ndur = append(ndur, n)
					}
				}
				if op.K == "R" {
					// a clean reopen shows a durable candidate; from here on that is what is visible
					ndur = withLate(dur)
					nvis = ndur
					failedAppends = nil
				}
			} else {
				out.Failed++
				if op.K == "A" {
					failedAppends = append(failedAppends, op)
				}
				nvis = vis
				ndur = append([]*Model{}, dur...)
				for _, m := range append(append([]*Model{}, dur...), vis...) {
					n := m.Clone()
					if !ApplyModel(n, op) {
						ndur = append(ndur, n)
						if op.K != "A" {
							nvis = append(nvis, n)
						}
					}
				}
			}
			vis, dur = dedupeModels(nvis), dedupeModels(ndur)
			if opened && sys.W != nil {
				check(fmt.Sprintf("in process after step %d %s (err=%v)", i, op, err), vis)
			}
			if err != nil {
				c := op
				return &c
			}
			return nil
		}
		var lastFailed *Op
		for i, op := range ops {
			if f := apply(i+1, op); f != nil {
				lastFailed = f
			}
		}
		if cont != nil {
			base := vis[0]
			for i, op := range cont(base, lastFailed) {
				apply(len(ops)+i+1, op)
			}
		}
		out.FaultOps = d.FaultOps
		if d.FaultHit != nil {
			out.HitOp = d.FaultHit.String()
		}
		// clear the fault
		d.FaultAt = -1
		d.FaultPersistent = false
		// power loss right here, after every call has returned: every image in which each un-fsynced write and
		// directory operation has landed completely or not at all (failed, un-fsynced writes over the same bytes
		// tearing into each other is not what the properties speak about) is recovered on a copy; it must open and show a durable candidate (what was acknowledged - before or
		// after the failure - is there, a failed call is applied in full or not at all)
		if fp != nil && d.FaultHit != nil {
			r := simdisk.NewReplay(simdisk.NewState(), d.BaseIno)
			for _, o := range d.Log {
				r.Apply(o)
			}
			if !r.NothingPending() {
				legal := withLate(dur)
				seen := map[string]bool{}
				r.EnumerateWholeWrites(5, func(img *simdisk.State, info simdisk.ImageInfo) bool {
					h := img.Hash()
					if seen[h] {
						return true
					}
					seen[h] = true
					out.CrashImages++
					s2 := Mount(img, cfg)
					defer s2.Unmount()
					if err := s2.Open(); err != nil {
						bad("power loss after the faulted run (%s; %s): Open fails: %v", r.PendingSummary(), info.Desc, err)
						return len(out.Viol) < 4
					}
					vsched.Quiesce()
					// entries that every durable candidate holds with the same content (what was acknowledged and
					// not truncated since) must be there, intact and inside [First, Last]; what never was
					// acknowledged is not judged here (two failed, un-fsynced writes over the same bytes can
					// tear into each other: that is outside what the property states)
					hl := uint64(0)
					for _, m := range legal {
						if m.Last > hl {
							hl = m.Last
						}
					}
					o := s2.Observe(1, hl)
					for idx, want := range legal[0].E {
						common := true
						for _, m := range legal[1:] {
							if g := m.E[idx]; g == nil || !LogsEqual(g, want) || idx < m.First || idx > m.Last {
								common = false
							}
						}
						if !common || idx < legal[0].First || idx > legal[0].Last {
							continue
						}
						if got := o.logs[idx]; got == nil || !LogsEqual(got, want) || idx < o.First || idx > o.Last {
							bad("power loss after the faulted run (%s; %s): acknowledged entry %d is not there after recovery: WAL shows %s, durable candidates %s", r.PendingSummary(), info.Desc, idx, o.Sig(), modelSetSig(legal))
							break
						}
					}
					s2.W.Close()
					vsched.Quiesce()
					return len(out.Viol) < 4
				})
			}
		}
		// reopen cleanly
		if opened && sys.W != nil {
			sys.W.Close()
			vsched.Quiesce()
		}
		if err := sys.Open(); err != nil {
			bad("clean reopen after the fault failed: %v", err)
			return
		}
		vsched.Quiesce()
		dur = withLate(dur)
		o1 := check("after clean reopen", dur)
		nViol := len(out.Viol)
		// and it still works
		last, _ := sys.W.LastIndex()
		next := last + 1
		if last == 0 {
			next = 9
		}
		appended := true
		if err := sys.W.StoreLogs([]*raft.Log{MkLog(next, 77, 4)}); err != nil {
			bad("append after clean reopen failed: %v", err)
			appended = false
		}
		vsched.Quiesce()
		out.Outcome = fmt.Sprintf("failed=%d vis=%d dur=%d", out.Failed, len(vis), len(dur))
		sys.W.Close()
		vsched.Quiesce()
		// a second clean reopen: what the first one showed (plus the append) is what stays
		// (state that recovery accepted but that only the next reader of the files trips over)
		if nViol == len(out.Viol) && appended {
			m1 := ModelFromObs(o1, nil)
			ApplyModel(m1, Op{K: "A", Idx: next, Sizes: []int{4}, Gen: 77})
			if err := sys.Open(); err != nil {
				bad("second clean reopen failed: %v", err)
				return
			}
			vsched.Quiesce()
			d.FaultPaused = true
			o2 := sys.Observe(m1.First, m1.Last)
			d.FaultPaused = false
			if d := CompareExact(o2, m1, ""); len(d) > 0 {
				bad("second clean reopen: WAL shows %s, the first reopen (plus one append) showed %s: %s", o2.Sig(), m1.Sig(), d[0])
			} else if FaultFinalHook != nil {
				sys.W.Close()
				vsched.Quiesce()
				sys.W = nil
				out.Viol = append(out.Viol, FaultFinalHook(sys, ModelFromObs(o2, nil))...)
				return
			}
			sys.W.Close()
			vsched.Quiesce()
		}
	})
	for _, p := range res.Panics {
		bad("panic: %s\n%s", p.Val, trimStack(p.Stack))
	}
	if res.Deadlock {
		bad("deadlock: %v", res.Blocked)
	}
	return out
}

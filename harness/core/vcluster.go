package core

import (
	"bytes"
	"errors"
	"fmt"
	"reflect"
	"strings"

	"github.com/hashicorp/raft"
	"github.com/hashicorp/raft-wal/metrics"
	"github.com/hashicorp/raft-wal/verifier"

	"verif/shim/vsched"
)

// ---------------------------------------------------------------------------
// A small cluster of verifier.LogStore middlewares over in-memory stores.

// VEvent is one cluster event.
type VEvent struct {
	K     string `json:"k"`               // LA leader append, RP replicate, LC leadership change, RS restart middleware, HT head truncation
	CP    bool   `json:"cp,omitempty"`    // LA: last entry of the batch is a checkpoint
	N     int    `json:"n,omitempty"`     // LA: batch size; RP: max entries (0 = all); HT: entries to drop
	Node  int    `json:"node,omitempty"`  // RP/RS/HT target; LC new leader
	Split bool   `json:"split,omitempty"` // RP: one StoreLogs per entry instead of one batch
	Fail  bool   `json:"fail,omitempty"`  // LA/RP: the node's store fails the (first) StoreLogs once; the call is then retried
	Lost  bool   `json:"lost,omitempty"`  // RP: the follower's store fails the StoreLogs and the batch is not submitted again by this event (a later replication, possibly by another leader, brings the entries)
	CP2   bool   `json:"cp2,omitempty"`   // LA: every entry of the batch is a checkpoint (several checkpoints in one StoreLogs)
}

func (e VEvent) String() string {
	switch e.K {
	case "LA":
		s := fmt.Sprintf("LA(%d", e.N)
		if e.CP {
			s += ",cp"
		}
		if e.CP2 {
			s += ",all-cp"
		}
		if e.Fail {
			s += ",fail+retry"
		}
		return s + ")"
	case "RP":
		s := fmt.Sprintf("RP(n%d", e.Node)
		if e.N > 0 {
			s += fmt.Sprintf(",max%d", e.N)
		}
		if e.Split {
			s += ",split"
		}
		if e.Fail {
			s += ",fail+retry"
		}
		if e.Lost {
			s += ",fails,not-retried"
		}
		return s + ")"
	case "LC":
		return fmt.Sprintf("LC(n%d)", e.Node)
	case "RS":
		return fmt.Sprintf("RS(n%d)", e.Node)
	case "HT":
		return fmt.Sprintf("HT(n%d,%d)", e.Node, e.N)
	}
	return e.K
}

func VEventsString(es []VEvent) string {
	ss := make([]string, len(es))
	for i, e := range es {
		ss[i] = e.String()
	}
	return strings.Join(ss, " ")
}

// Mutation alters one entry, in flight to a node or at rest on a node.
type Mutation struct {
	Where string `json:"where"` // "flight" (into Node), "rest" (on Node)
	Node  int    `json:"node"`
	Index uint64 `json:"index"`
	Field string `json:"field"` // index+1 index-1 term+1 term-1 type databit datatrunc dataext datanil extbit extadd swap (i returned as a copy of i+1) xchg (i and i+1 returned in each other's place)
}

func (m Mutation) String() string {
	return fmt.Sprintf("%s@n%d idx=%d %s", m.Where, m.Node, m.Index, m.Field)
}

func applyMutation(l *raft.Log, field string) {
	switch field {
	case "term+1":
		l.Term++
	case "term-1":
		l.Term--
	case "type":
		l.Type = (l.Type + 1) % 4
		if l.Type == raft.LogConfiguration && l.Index == 1 {
			l.Type = raft.LogNoop
		}
	case "databit":
		if len(l.Data) > 0 {
			d := append([]byte(nil), l.Data...)
			d[len(d)-1] ^= 0x01
			l.Data = d
		} else {
			l.Data = []byte{1}
		}
	case "datatrunc":
		if len(l.Data) > 0 {
			l.Data = append([]byte(nil), l.Data[:len(l.Data)-1]...)
		} else {
			l.Data = []byte{0}
		}
	case "dataext":
		l.Data = append(append([]byte(nil), l.Data...), 0)
	case "datanil":
		if len(l.Data) > 0 {
			l.Data = nil
		} else {
			l.Data = []byte{7}
		}
	case "extbit":
		if len(l.Extensions) > 0 {
			x := append([]byte(nil), l.Extensions...)
			x[len(x)-1] ^= 0x80
			l.Extensions = x
		} else {
			l.Extensions = []byte{1}
		}
	case "extadd":
		l.Extensions = append(append([]byte(nil), l.Extensions...), 0x5a)
	case "index+1":
		l.Index++
	case "index-1":
		l.Index--
	}
}

// corruptStore returns altered entries for chosen indexes (corruption at rest)
// and can make the next StoreLogs fail without storing anything.
type corruptStore struct {
	raft.LogStore
	mut      map[uint64]string
	failNext bool
	yield    bool // every call is a scheduling point (vconc.go)
}

func (c *corruptStore) StoreLogs(logs []*raft.Log) error {
	c.point("StoreLogs")
	if c.failNext {
		c.failNext = false
		return errors.New("injected store failure")
	}
	return c.LogStore.StoreLogs(logs)
}

func (c *corruptStore) StoreLog(l *raft.Log) error { return c.StoreLogs([]*raft.Log{l}) }

func (c *corruptStore) GetLog(i uint64, l *raft.Log) error {
	c.point("GetLog")
	if err := c.LogStore.GetLog(i, l); err != nil {
		return err
	}
	if f, ok := c.mut[i-1]; ok && f == "xchg" && i > 0 {
		var o raft.Log
		if err := c.LogStore.GetLog(i-1, &o); err == nil {
			*l = o
		}
		return nil
	}
	if f, ok := c.mut[i]; ok {
		if f == "swap" || f == "xchg" {
			var o raft.Log
			if err := c.LogStore.GetLog(i+1, &o); err == nil {
				*l = o
			}
			return nil
		}
		applyMutation(l, f)
	}
	return nil
}

type vnode struct {
	id      int
	store   *raft.InmemStore
	cs      *corruptStore
	v       *verifier.LogStore
	mc      *metrics.AtomicCollector
	reports []verifier.VerificationReport
	gate    func()               // optional: called inside reportFn before recording
	handed  map[uint64]*raft.Log // exactly what was handed to this node's StoreLogs, per index (latest)
}

// VCluster is a cluster under test plus the ground truth.
type VCluster struct {
	Nodes  []*vnode
	Leader int
	Term   uint64
	// truth[c] = the entries [start,c) as the checkpointing leader held them when it wrote checkpoint c
	truth    map[string][]*raft.Log
	Viol     []Violation
	seq      int
	failOnce bool
	loseOnce bool
	// Concurrent: the cluster is driven by the concurrent scenarios (a report may be delivered after a
	// truncation already removed its checkpoint)
	Concurrent bool
	flight     *Mutation
	// per-report verdict bookkeeping
	Checked       int
	Clean         int // reports for ranges the node held intact
	Diverged      int // reports for ranges with a divergence
	RangeMis      int
	LastReports   []ReportRef // reports evaluated by the most recent Apply
	DivergedNotes []string
}

// ReportRef names a delivered report.
type ReportRef struct {
	Node       int
	Start, End uint64
}

// SetFlight installs an in-flight mutation; SetRest an at-rest one.
func (c *VCluster) SetFlight(m *Mutation) { c.flight = m }
func (c *VCluster) SetRest(m *Mutation)   { c.Nodes[m.Node].cs.mut[m.Index] = m.Field }

func isCheckpoint(l *raft.Log) (bool, error) {
	return l.Type == raft.LogCommand && bytes.HasPrefix(l.Data, []byte("CP")), nil
}

func NewVCluster(n int) *VCluster {
	c := &VCluster{Term: 1, truth: map[string][]*raft.Log{}}
	for i := 0; i < n; i++ {
		nd := &vnode{id: i, store: raft.NewInmemStore(), handed: map[uint64]*raft.Log{}}
		nd.cs = &corruptStore{LogStore: nd.store, mut: map[uint64]string{}}
		c.Nodes = append(c.Nodes, nd)
		c.startVerifier(nd)
	}
	return c
}

func (c *VCluster) startVerifier(nd *vnode) {
	nd.mc = metrics.NewAtomicCollector(verifier.MetricDefinitions)
	nd.v = verifier.NewLogStore(nd.cs, isCheckpoint, func(r verifier.VerificationReport) {
		if nd.gate != nil {
			nd.gate()
		}
		nd.reports = append(nd.reports, r)
	}, nd.mc)
}

func cloneLog(l *raft.Log) *raft.Log {
	c := *l
	c.Data = append([]byte(nil), l.Data...)
	if l.Data == nil {
		c.Data = nil
	}
	c.Extensions = append([]byte(nil), l.Extensions...)
	if l.Extensions == nil {
		c.Extensions = nil
	}
	return &c
}

func (c *VCluster) last(nd *vnode) uint64 {
	l, _ := nd.store.LastIndex()
	return l
}

func (c *VCluster) first(nd *vnode) uint64 {
	f, _ := nd.store.FirstIndex()
	return f
}

func (c *VCluster) raw(nd *vnode, i uint64) *raft.Log {
	var l raft.Log
	if err := nd.store.GetLog(i, &l); err != nil {
		return nil
	}
	return cloneLog(&l)
}

// Enabled reports whether e does anything in the current state.
func (c *VCluster) Enabled(e VEvent) bool {
	ld := c.Nodes[c.Leader]
	switch e.K {
	case "LA":
		return true
	case "RP":
		if e.Node == c.Leader {
			return false
		}
		f := c.Nodes[e.Node]
		ll := c.last(ld)
		if ll == 0 {
			return false
		}
		// something to send: follower behind, or conflicting
		if c.last(f) < ll {
			return true
		}
		return c.conflictIndex(f) > 0
	case "LC":
		return e.Node != c.Leader
	case "RS":
		return true
	case "HT":
		nd := c.Nodes[e.Node]
		return c.last(nd) > 0 && c.last(nd)-c.first(nd)+1 > uint64(e.N)
	}
	return false
}

// conflictIndex returns the first index where follower f disagrees with the
// leader (different term), or an index beyond the leader's log, 0 if none.
func (c *VCluster) conflictIndex(f *vnode) uint64 {
	ld := c.Nodes[c.Leader]
	ff, fl := c.first(f), c.last(f)
	lf, ll := c.first(ld), c.last(ld)
	if fl == 0 {
		return 0
	}
	for i := ff; i <= fl; i++ {
		if i > ll {
			return i
		}
		if i < lf {
			continue
		}
		a, b := c.raw(f, i), c.raw(ld, i)
		if a == nil || b == nil || a.Term != b.Term {
			return i
		}
	}
	return 0
}

func (c *VCluster) storeOn(nd *vnode, logs []*raft.Log) error {
	if c.loseOnce {
		c.loseOnce = false
		nd.cs.failNext = true
		first := make([]*raft.Log, len(logs))
		for i, l := range logs {
			first[i] = cloneLog(l)
		}
		if err := nd.v.StoreLogs(first); err == nil {
			return fmt.Errorf("injected store failure was swallowed")
		}
		return nil // nothing stored, nothing handed over for good
	}
	for _, l := range logs {
		nd.handed[l.Index] = cloneLog(l)
	}
	if c.failOnce {
		c.failOnce = false
		nd.cs.failNext = true
		// raft hands the same entries again after a failed append; a leader's checkpoint
		// entry gets its metadata written into Extensions by the first attempt, so the
		// retry uses fresh copies of what the caller submitted
		first := make([]*raft.Log, len(logs))
		for i, l := range logs {
			first[i] = cloneLog(l)
		}
		if err := nd.v.StoreLogs(first); err == nil {
			return fmt.Errorf("injected store failure was swallowed")
		}
	}
	return nd.v.StoreLogs(logs)
}

// Apply executes one event and lets the verifier goroutines run to quiescence.
func (c *VCluster) Apply(e VEvent) {
	ld := c.Nodes[c.Leader]
	c.failOnce = e.Fail
	c.loseOnce = e.Lost && e.K == "RP"
	switch e.K {
	case "LA":
		next := c.last(ld) + 1
		var batch []*raft.Log
		for i := 0; i < e.N; i++ {
			c.seq++
			// content is a function of (index, term), as in raft
			l := &raft.Log{Index: next + uint64(i), Term: c.Term, Type: raft.LogCommand, Data: []byte(fmt.Sprintf("d%d.%d", c.Term, next+uint64(i)))}
			if (e.CP && i == e.N-1) || e.CP2 {
				l.Data = []byte(fmt.Sprintf("CP%d.%d", c.Term, next+uint64(i)))
			}
			batch = append(batch, l)
		}
		if err := c.storeOn(ld, batch); err != nil {
			c.Viol = append(c.Viol, Violation{Prop: "C18", Msg: fmt.Sprintf("leader StoreLogs failed: %v", err)})
			return
		}
		for k := 0; k < e.N; k++ {
			if !(e.CP2 || (e.CP && k == e.N-1)) {
				continue
			}
			cp := c.raw(ld, next+uint64(k))
			if cp != nil && len(cp.Extensions) >= 24 {
				st := leU64(cp.Extensions[8:16])
				var tr []*raft.Log
				for i := st; i < cp.Index; i++ {
					tr = append(tr, c.raw(ld, i))
				}
				c.truth[fmt.Sprintf("%d-%d-%x", st, cp.Index, leU64(cp.Extensions[16:24]))] = tr
			}
		}
	case "RP":
		f := c.Nodes[e.Node]
		if ci := c.conflictIndex(f); ci > 0 {
			if err := f.v.DeleteRange(ci, c.last(f)); err != nil {
				c.Viol = append(c.Viol, Violation{Prop: "C18", Msg: fmt.Sprintf("follower DeleteRange failed: %v", err)})
				return
			}
		}
		from := c.last(f) + 1
		if c.last(f) == 0 {
			from = c.first(ld)
		}
		to := c.last(ld)
		if e.N > 0 && from+uint64(e.N)-1 < to {
			to = from + uint64(e.N) - 1
		}
		var batch []*raft.Log
		for i := from; i <= to; i++ {
			l := c.raw(ld, i)
			if l == nil {
				return
			}
			if c.flight != nil && c.flight.Node == e.Node && c.flight.Index == i {
				if c.flight.Field == "swap" {
					if o := c.raw(ld, i+1); o != nil && i+1 <= to {
						// swap contents of i and i+1 keeping positions: handled below
					}
				}
				applyMutation(l, c.flight.Field)
			}
			batch = append(batch, l)
		}
		if len(batch) == 0 {
			return
		}
		if e.Split {
			for _, l := range batch {
				if err := c.storeOn(f, []*raft.Log{l}); err != nil {
					c.Viol = append(c.Viol, Violation{Prop: "C18", Msg: fmt.Sprintf("follower StoreLogs failed: %v", err)})
					return
				}
			}
		} else if err := c.storeOn(f, batch); err != nil {
			c.Viol = append(c.Viol, Violation{Prop: "C18", Msg: fmt.Sprintf("follower StoreLogs failed: %v", err)})
			return
		}
	case "LC":
		c.Leader = e.Node
		c.Term++
	case "RS":
		nd := c.Nodes[e.Node]
		nd.v.Close() // InmemStore is not an io.Closer: only the verifier goroutine stops
		c.startVerifier(nd)
	case "HT":
		nd := c.Nodes[e.Node]
		f := c.first(nd)
		if err := nd.v.DeleteRange(f, f+uint64(e.N)-1); err != nil {
			c.Viol = append(c.Viol, Violation{Prop: "C18", Msg: fmt.Sprintf("head DeleteRange failed: %v", err)})
		}
	}
	vsched.Quiesce()
	c.checkReports()
}

func leU64(b []byte) uint64 {
	var x uint64
	for i := 7; i >= 0; i-- {
		x = x<<8 | uint64(b[i])
	}
	return x
}

// checkReports evaluates every report delivered since the last call.
func (c *VCluster) checkReports() {
	c.LastReports = nil
	for _, nd := range c.Nodes {
		for _, r := range nd.reports {
			c.Checked++
			c.LastReports = append(c.LastReports, ReportRef{nd.id, r.Range.Start, r.Range.End})
			if c.flight == nil && len(nd.cs.mut) == 0 && !c.Concurrent {
				// reports are delivered while the cluster is quiescent after the event that stored their
				// checkpoint: the node holds that checkpoint, with the sum the report expects
				if e := c.raw(nd, r.Range.End); e == nil || len(e.Extensions) < 24 || leU64(e.Extensions[16:24]) != r.ExpectedSum {
					c.Viol = append(c.Viol, Violation{Prop: "C16", Msg: fmt.Sprintf("node %d delivered a report for range %s (expected sum %x) but stores no checkpoint with that sum at index %d: a report about a checkpoint the node never stored (err=%v)", nd.id, r.Range, r.ExpectedSum, r.Range.End, r.Err)})
					continue
				}
			}
			tr, ok := c.truth[fmt.Sprintf("%d-%d-%x", r.Range.Start, r.Range.End, r.ExpectedSum)]
			if !ok {
				if c.flight != nil || len(nd.cs.mut) > 0 {
					// the injected mutation altered a checkpoint's own metadata: the report
					// refers to a (start, sum) no leader wrote; nothing to compare it with
					continue
				}
				c.Viol = append(c.Viol, Violation{Prop: "C16", Msg: fmt.Sprintf("node %d reported on range %s that no leader checkpointed", nd.id, r.Range)})
				continue
			}
			var mism verifier.ErrChecksumMismatch
			isMismatch := errors.As(r.Err, &mism)
			first := c.first(nd)
			if first > r.Range.Start || c.last(nd) == 0 {
				c.RangeMis++
				if isMismatch {
					c.Viol = append(c.Viol, Violation{Prop: "C16", Msg: fmt.Sprintf("node %d lacks part of range %s (first index %d) but reported corruption: %v", nd.id, r.Range, first, r.Err)})
				} else if !errors.Is(r.Err, verifier.ErrRangeMismatch) {
					c.Viol = append(c.Viol, Violation{Prop: "C16", Msg: fmt.Sprintf("node %d lacks part of range %s (first index %d): report error is %v, want ErrRangeMismatch", nd.id, r.Range, first, r.Err)})
				}
				continue
			}
			// does the node hold, and read back, the range exactly as the leader checksummed it?
			storedSame, readSame, handedSame := true, true, true
			for k, want := range tr {
				i := r.Range.Start + uint64(k)
				got := c.raw(nd, i)
				if got == nil || want == nil || !LogsEqual(got, want) {
					storedSame = false
				}
				var rl raft.Log
				if err := nd.cs.GetLog(i, &rl); err != nil || want == nil || !LogsEqual(&rl, want) {
					readSame = false
				}
				if h := nd.handed[i]; h != nil && want != nil && !LogsEqual(h, want) {
					handedSame = false
				}
			}
			if storedSame && readSame {
				c.Clean++
				if isMismatch {
					c.Viol = append(c.Viol, Violation{Prop: "C16", Msg: fmt.Sprintf("false alarm: node %d holds range %s exactly as the leader wrote it, yet the report says: %v", nd.id, r.Range, r.Err)})
				} else if r.Err != nil {
					c.Viol = append(c.Viol, Violation{Prop: "C16", Msg: fmt.Sprintf("node %d holds range %s intact but the report carries error %v", nd.id, r.Range, r.Err)})
				}
			} else {
				c.Diverged++
				c.DivergedNotes = append(c.DivergedNotes, fmt.Sprintf("node %d range %s err=%v first=%d", nd.id, r.Range, r.Err, first))
				if !isMismatch {
					c.Viol = append(c.Viol, Violation{Prop: "C17", Msg: fmt.Sprintf("missed divergence: node %d's entries in range %s differ from what the leader checksummed, report error is %v (written=%x read=%x expected=%x)", nd.id, r.Range, r.Err, r.WrittenSum, r.ReadSum, r.ExpectedSum)})
				}
			}
			if isMismatch && strings.Contains(string(mism), "in-flight") && handedSame {
				c.Viol = append(c.Viol, Violation{Prop: "C17", Msg: fmt.Sprintf("node %d blames in-flight corruption for range %s although it was handed exactly what the leader checksummed", nd.id, r.Range)})
			}
		}
		nd.reports = nil
	}
}

// Key is a canonical form of the cluster state for de-duplication: logs,
// leader, term and the middleware's private checksum state (read through
// reflection; if the fields are not there the key degrades to "no merging").
func (c *VCluster) Key(hist string) string {
	var b strings.Builder
	fmt.Fprintf(&b, "L%d T%d|", c.Leader, c.Term)
	for _, nd := range c.Nodes {
		f, l := c.first(nd), c.last(nd)
		fmt.Fprintf(&b, "n%d[%d,%d]", nd.id, f, l)
		if l > 0 {
			for i := f; i <= l; i++ {
				if e := c.raw(nd, i); e != nil {
					cp := ""
					if ok, _ := isCheckpoint(e); ok {
						cp = fmt.Sprintf("c%d", leU64safe(e.Extensions))
					}
					fmt.Fprintf(&b, " %d%s", e.Term, cp)
				}
			}
		}
		v := reflect.ValueOf(nd.v).Elem()
		cs, ss := v.FieldByName("checksum"), v.FieldByName("sumStartIdx")
		if !cs.IsValid() || !ss.IsValid() || cs.Kind() != reflect.Uint64 {
			return hist // cannot see the private state: never merge
		}
		fmt.Fprintf(&b, " s%d/%x|", ss.Uint(), cs.Uint())
	}
	return b.String()
}

func leU64safe(b []byte) uint64 {
	if len(b) < 16 {
		return 0
	}
	return leU64(b[8:16])
}

// CloseAll stops the verifier goroutines.
func (c *VCluster) CloseAll() {
	for _, nd := range c.Nodes {
		nd.v.Close()
	}
	vsched.Quiesce()
}

// Package core holds what every engine shares: the reference models, the
// operation alphabet, the simulated metadata store, the WAL driver and the
// observation/oracle code.
package core

import (
	"bytes"
	"errors"
	"fmt"
	"sort"
	"time"

	"github.com/hashicorp/raft"
)

// ---------------------------------------------------------------------------
// Reference model of the log: a contiguous map from index to entry.

type Model struct {
	First, Last uint64
	E           map[uint64]*raft.Log
	Stable      map[string][]byte
	// Hist remembers, per index, every content ever submitted on this path
	// (generation tags), newest last. Used only to explain violations.
	Hist map[uint64][]string
	// Acked marks indexes whose StoreLogs returned nil on this path (as opposed
	// to entries that were only seen by a recovery).
	Acked map[uint64]bool
	// Truncated marks indexes that a tail truncation removed at some point.
	Truncated map[uint64]bool
	// U64 marks stable keys whose latest value was written with SetUint64 (the
	// result of GetUint64 is only defined for those, and for unset keys).
	U64 map[string]bool
	// Deleted is set once a DeleteRange removed something on this path.
	Deleted bool
	// PrevLast is the last index the log had when a head truncation emptied it (alphabets use
	// it to append right behind a log that was deleted completely).
	PrevLast uint64
}

func NewModel() *Model {
	return &Model{E: map[uint64]*raft.Log{}, Stable: map[string][]byte{}, Hist: map[uint64][]string{}, Acked: map[uint64]bool{}, Truncated: map[uint64]bool{}, U64: map[string]bool{}}
}

func (m *Model) Clone() *Model {
	c := &Model{Deleted: m.Deleted, PrevLast: m.PrevLast, First: m.First, Last: m.Last, E: make(map[uint64]*raft.Log, len(m.E)), Stable: make(map[string][]byte, len(m.Stable)),
		Hist: make(map[uint64][]string, len(m.Hist)), Acked: make(map[uint64]bool, len(m.Acked)), Truncated: make(map[uint64]bool, len(m.Truncated))}
	for k, v := range m.Truncated {
		c.Truncated[k] = v
	}
	c.U64 = make(map[string]bool, len(m.U64))
	for k, v := range m.U64 {
		c.U64[k] = v
	}
	for k, v := range m.E {
		c.E[k] = v
	}
	for k, v := range m.Stable {
		c.Stable[k] = v
	}
	for k, v := range m.Hist {
		c.Hist[k] = v[:len(v):len(v)]
	}
	for k, v := range m.Acked {
		c.Acked[k] = v
	}
	return c
}

func (m *Model) Empty() bool { return m.Last == 0 }

var ErrModelReject = errors.New("model: operation must be rejected")

// Append applies StoreLogs semantics; ErrModelReject means the implementation
// must return an error and change nothing.
func (m *Model) Append(logs []*raft.Log) error {
	if len(logs) == 0 {
		return nil
	}
	for i, l := range logs {
		if i > 0 && l.Index != logs[i-1].Index+1 {
			return ErrModelReject
		}
	}
	if !m.Empty() && logs[0].Index != m.Last+1 {
		return ErrModelReject
	}
	if logs[0].Index == 0 {
		return ErrModelReject
	}
	if m.Empty() {
		m.First = logs[0].Index
	}
	for _, l := range logs {
		m.E[l.Index] = l
		m.Hist[l.Index] = append(m.Hist[l.Index], Fingerprint(l))
		m.Acked[l.Index] = true
	}
	m.Last = logs[len(logs)-1].Index
	return nil
}

// DeleteRange applies the documented semantics.
func (m *Model) DeleteRange(min, max uint64) error {
	if min > max {
		return nil
	}
	if m.Empty() || max < m.First || min > m.Last {
		return nil
	}
	m.Deleted = true
	switch {
	case min <= m.First:
		// head truncation, may empty the log
		hi := max
		if hi > m.Last {
			hi = m.Last
		}
		for i := m.First; i <= hi; i++ {
			delete(m.E, i)
			delete(m.Acked, i)
		}
		if hi == m.Last {
			m.PrevLast = m.Last
			m.First, m.Last = 0, 0
		} else {
			m.First = hi + 1
		}
		return nil
	case max >= m.Last:
		for i := min; i <= m.Last; i++ {
			delete(m.E, i)
			delete(m.Acked, i)
			m.Truncated[i] = true
		}
		m.Last = min - 1
		return nil
	default:
		m.Deleted = false
		return ErrModelReject
	}
}

func (m *Model) SetStable(k string, v []byte) {
	delete(m.U64, k)
	if v == nil {
		delete(m.Stable, k)
		return
	}
	m.Stable[k] = append([]byte{}, v...)
}

// Sig is a canonical string of the log part.
func (m *Model) Sig() string {
	var b bytes.Buffer
	fmt.Fprintf(&b, "[%d,%d]", m.First, m.Last)
	if m.Last > 0 {
		for i := m.First; i <= m.Last; i++ {
			b.WriteString(" ")
			if e := m.E[i]; e != nil {
				b.WriteString(Fingerprint(e))
			} else {
				b.WriteString("?")
			}
		}
	}
	return b.String()
}

func (m *Model) StableSig() string {
	ks := make([]string, 0, len(m.Stable))
	for k := range m.Stable {
		ks = append(ks, k)
	}
	sort.Strings(ks)
	var b bytes.Buffer
	for _, k := range ks {
		fmt.Fprintf(&b, "%s=%x;", k, m.Stable[k])
	}
	return b.String()
}

// ---------------------------------------------------------------------------
// Deterministic entry contents.

var baseTime = time.Date(2021, 3, 4, 5, 6, 7, 0, time.UTC)

// MkLog builds the entry for (index, generation, payload size). Everything
// about it is a function of those three numbers so that an observed entry can
// be recognised again.
func MkLog(idx uint64, gen int, size int) *raft.Log {
	data := make([]byte, size)
	for i := range data {
		data[i] = byte(int(idx)*31 + gen*17 + i*7 + 1)
	}
	l := &raft.Log{Index: idx, Term: uint64(gen + 1), Type: raft.LogCommand, Data: data, AppendedAt: baseTime.Add(time.Duration(idx) * time.Second)}
	if size == 0 {
		l.Data = nil
	}
	return l
}

// Fingerprint renders an entry compactly; entries made by MkLog come out as
// i<idx>g<gen>s<size>, anything else as a hex digest of all fields.
func Fingerprint(l *raft.Log) string {
	if l == nil {
		return "nil"
	}
	gen := int(l.Term) - 1
	if gen >= 0 && gen < 1000 {
		w := MkLog(l.Index, gen, len(l.Data))
		if LogsEqual(w, l) {
			return fmt.Sprintf("i%dg%ds%d", l.Index, gen, len(l.Data))
		}
	}
	return fmt.Sprintf("RAW{i=%d t=%d ty=%d d=%x x=%x at=%s}", l.Index, l.Term, l.Type, l.Data, l.Extensions, l.AppendedAt.Format(time.RFC3339Nano))
}

// LogsEqual compares every field. nil and empty byte slices are equal (the
// codec does not distinguish them); times compare by instant and zone offset.
func LogsEqual(a, b *raft.Log) bool {
	if a.Index != b.Index || a.Term != b.Term || a.Type != b.Type {
		return false
	}
	if !bytes.Equal(a.Data, b.Data) || !bytes.Equal(a.Extensions, b.Extensions) {
		return false
	}
	if !a.AppendedAt.Equal(b.AppendedAt) {
		return false
	}
	_, ao := a.AppendedAt.Zone()
	_, bo := b.AppendedAt.Zone()
	return ao == bo
}

package core

import (
	"bufio"
	"fmt"
	"os"
	"path/filepath"
	"regexp"
	"strconv"
	"strings"
)

// ---------------------------------------------------------------------------
// strace parsing

// TraceEvent is one completed system call (or marker) of the traced process.
type TraceEvent struct {
	Call   string
	Args   string
	Ret    string
	Marker string // payload of a marker write ("MARK ...")
}

var (
	reLine      = regexp.MustCompile(`^(\d+)\s+(\w+)\((.*)\)\s+=\s+(.+)$`)
	reUnfin     = regexp.MustCompile(`^(\d+)\s+(\w+)\((.*) <unfinished \.\.\.>$`)
	reResumed   = regexp.MustCompile(`^(\d+)\s+<\.\.\. (\w+) resumed>(.*)\)\s+=\s+(.+)$`)
	reMarkWrite = regexp.MustCompile(`^\d+, "(MARK [^"]*)\\n"`)
)

// ParseStrace reads an strace -f -o file; calls are ordered by completion.
func ParseStrace(path string) ([]TraceEvent, error) {
	f, err := os.Open(path)
	if err != nil {
		return nil, err
	}
	defer f.Close()
	var out []TraceEvent
	pending := map[string]string{} // pid -> args so far
	sc := bufio.NewScanner(f)
	sc.Buffer(make([]byte, 1<<20), 1<<24)
	for sc.Scan() {
		line := sc.Text()
		if m := reUnfin.FindStringSubmatch(line); m != nil {
			pending[m[1]+m[2]] = m[3]
			continue
		}
		var call, args, ret string
		if m := reResumed.FindStringSubmatch(line); m != nil {
			call, args, ret = m[2], pending[m[1]+m[2]]+m[3], m[4]
			delete(pending, m[1]+m[2])
		} else if m := reLine.FindStringSubmatch(line); m != nil {
			call, args, ret = m[2], m[3], m[4]
		} else {
			continue
		}
		ev := TraceEvent{Call: call, Args: args, Ret: ret}
		if call == "write" {
			if mm := reMarkWrite.FindStringSubmatch(args); mm != nil {
				ev.Marker = mm[1]
			} else {
				continue
			}
		}
		out = append(out, ev)
	}
	return out, sc.Err()
}

// ---------------------------------------------------------------------------
// Monitor automaton for the durability discipline (rules R1..R6 of DESIGN C07)

type fileState struct {
	dirty           bool // pwrite since last fsync/fdatasync
	needDirSync     bool // created (or renamed into place) since the last fsync of its directory
	createdExcl     bool
	prealloc        int64
	writtenThisCall bool
	everWritten     bool
}

// FsEvent is the abstract event sequence used for conformance with the simulated OS.
type FsEvent struct {
	Kind string // create prealloc pwrite fsync fsyncdir unlink meta
	Name string
	Off  int64
	Len  int64
}

func (e FsEvent) String() string {
	switch e.Kind {
	case "pwrite":
		return fmt.Sprintf("pwrite(%s,%d,%d)", e.Name, e.Off, e.Len)
	case "prealloc":
		return fmt.Sprintf("prealloc(%s,%d)", e.Name, e.Len)
	case "fsyncdir", "meta":
		return e.Kind
	}
	return fmt.Sprintf("%s(%s)", e.Kind, e.Name)
}

type WorkloadTrace struct {
	ID      int
	Dir     string
	SegSize int64
	Viol    []string
	Events  []FsEvent
	Acks    int
}

type Monitor struct {
	fd      map[string]string // fd -> path
	files   map[string]*fileState
	pendUnl map[string]bool // unlinked *.wal not yet followed by a dir fsync
	cur     *WorkloadTrace
	Done    []*WorkloadTrace
	curCall string
	dbInit  struct {
		tmpDirty  bool
		renamed   bool
		dirSynced bool
		sawTmp    bool
	}
	Unattributed []string
}

func NewMonitor() *Monitor {
	return &Monitor{fd: map[string]string{}, files: map[string]*fileState{}, pendUnl: map[string]bool{}}
}

func firstQuoted(s string) (string, string) {
	i := strings.Index(s, `"`)
	if i < 0 {
		return "", s
	}
	j := strings.Index(s[i+1:], `"`)
	if j < 0 {
		return "", s
	}
	return s[i+1 : i+1+j], s[i+2+j:]
}

func (m *Monitor) inDir(p string) bool {
	return m.cur != nil && strings.HasPrefix(p, m.cur.Dir+"/")
}

func (m *Monitor) st(p string) *fileState {
	s := m.files[p]
	if s == nil {
		s = &fileState{}
		m.files[p] = s
	}
	return s
}

func (m *Monitor) bad(f string, a ...interface{}) {
	if m.cur != nil {
		m.cur.Viol = append(m.cur.Viol, fmt.Sprintf(f, a...))
	}
}

func isWal(p string) bool { return strings.HasSuffix(p, ".wal") }
func isDB(p string) bool  { return strings.HasSuffix(p, "/wal-meta.db") }
func isTmp(p string) bool { return strings.HasSuffix(p, "/wal-meta.db.tmp") }

func (m *Monitor) ev(e FsEvent) {
	if m.cur == nil {
		return
	}
	// collapse runs of metadata-store events
	if e.Kind == "meta" {
		if n := len(m.cur.Events); n > 0 && m.cur.Events[n-1].Kind == "meta" {
			return
		}
	}
	m.cur.Events = append(m.cur.Events, e)
}

// Feed processes one event.
func (m *Monitor) Feed(e TraceEvent) {
	if e.Marker != "" {
		m.marker(e.Marker)
		return
	}
	failed := strings.HasPrefix(e.Ret, "-1")
	switch e.Call {
	case "openat":
		p, rest := firstQuoted(e.Args)
		if failed || p == "" {
			return
		}
		fd := strings.Fields(e.Ret)[0]
		m.fd[fd] = p
		if !m.inDir(p) {
			return
		}
		if strings.Contains(rest, "O_CREAT") {
			s := m.st(p)
			if isWal(p) {
				if !strings.Contains(rest, "O_EXCL") {
					m.bad("R4: segment file %s created without O_EXCL", filepath.Base(p))
				}
				s.createdExcl = true
				s.needDirSync = true
				s.dirty = false
				s.prealloc = 0
				s.everWritten = false
				m.ev(FsEvent{Kind: "create", Name: filepath.Base(p)})
			}
			if isTmp(p) {
				m.dbInit.sawTmp = true
			}
		}
	case "close":
		delete(m.fd, strings.TrimSpace(e.Args))
	case "fallocate", "ftruncate":
		parts := strings.Split(e.Args, ",")
		p := m.fd[strings.TrimSpace(parts[0])]
		if failed || !m.inDir(p) || !isWal(p) {
			return
		}
		sz, _ := strconv.ParseInt(strings.TrimSpace(parts[len(parts)-1]), 10, 64)
		s := m.st(p)
		if sz > s.prealloc {
			s.prealloc = sz
		}
		m.ev(FsEvent{Kind: "prealloc", Name: filepath.Base(p), Len: sz})
	case "pwrite64":
		i := strings.Index(e.Args, ",")
		if i < 0 {
			return
		}
		p := m.fd[strings.TrimSpace(e.Args[:i])]
		if !m.inDir(p) {
			return
		}
		s := m.st(p)
		s.dirty = true
		if isWal(p) {
			parts := strings.Split(e.Args, ",")
			off, _ := strconv.ParseInt(strings.TrimSpace(parts[len(parts)-1]), 10, 64)
			n, _ := strconv.ParseInt(strings.Fields(e.Ret)[0], 10, 64)
			if !s.everWritten && m.cur != nil && s.createdExcl && s.prealloc < m.cur.SegSize {
				m.bad("R4: first write to new segment %s but it was preallocated to %d bytes, requested %d", filepath.Base(p), s.prealloc, m.cur.SegSize)
			}
			s.everWritten = true
			s.writtenThisCall = true
			m.ev(FsEvent{Kind: "pwrite", Name: filepath.Base(p), Off: off, Len: n})
		} else if isDB(p) || isTmp(p) {
			if isTmp(p) {
				m.dbInit.tmpDirty = true
			}
			m.ev(FsEvent{Kind: "meta"})
		}
	case "fsync", "fdatasync":
		p := m.fd[strings.TrimSpace(e.Args)]
		if failed || p == "" || m.cur == nil {
			return
		}
		if p == m.cur.Dir {
			for fp, s := range m.files {
				if filepath.Dir(fp) == p {
					s.needDirSync = false
				}
			}
			for u := range m.pendUnl {
				delete(m.pendUnl, u)
			}
			if m.dbInit.renamed {
				m.dbInit.dirSynced = true
			}
			m.ev(FsEvent{Kind: "fsyncdir"})
			return
		}
		if !m.inDir(p) {
			return
		}
		m.st(p).dirty = false
		if isTmp(p) {
			m.dbInit.tmpDirty = false
		}
		if isWal(p) {
			m.ev(FsEvent{Kind: "fsync", Name: filepath.Base(p)})
		} else {
			m.ev(FsEvent{Kind: "meta"})
		}
	case "unlinkat", "unlink", "rmdir":
		p, rest := firstQuoted(e.Args)
		if failed {
			return
		}
		if e.Call == "rmdir" || strings.Contains(rest, "AT_REMOVEDIR") {
			// a directory is gone: descriptors still open on it refer to the dead inode, and an fsync
			// through one of them says nothing about a directory created later under the same name
			if !strings.HasPrefix(p, "/") {
				if i := strings.Index(e.Args, ","); i > 0 {
					if base := m.fd[strings.TrimSpace(e.Args[:i])]; base != "" {
						p = base + "/" + p
					}
				}
			}
			for fd, q := range m.fd {
				if q == p {
					m.fd[fd] = q + " (removed)"
				}
			}
			return
		}
		if !m.inDir(p) {
			return
		}
		if isWal(p) {
			m.pendUnl[p] = true
			delete(m.files, p)
			m.ev(FsEvent{Kind: "unlink", Name: filepath.Base(p)})
		}
	case "rename", "renameat", "renameat2":
		a, rest := firstQuoted(e.Args)
		b, _ := firstQuoted(rest)
		if failed || !m.inDir(b) {
			return
		}
		if isDB(b) {
			if !isTmp(a) {
				m.bad("R5: wal-meta.db put in place by renaming %s, not the temporary database", filepath.Base(a))
			}
			if m.dbInit.tmpDirty {
				m.bad("R5: temporary metadata database renamed into place with writes not yet synced")
			}
			m.dbInit.renamed = true
			m.dbInit.dirSynced = false
			if s := m.files[a]; s != nil {
				m.files[b] = s
				delete(m.files, a)
			}
		}
	}
}

func (m *Monitor) marker(s string) {
	f := strings.Fields(s)
	if len(f) < 3 {
		return
	}
	id, _ := strconv.Atoi(f[1])
	switch f[2] {
	case "BEGIN":
		sz, _ := strconv.ParseInt(f[4], 10, 64)
		m.cur = &WorkloadTrace{ID: id, Dir: f[3], SegSize: sz}
		m.files = map[string]*fileState{}
		m.pendUnl = map[string]bool{}
		m.dbInit.tmpDirty, m.dbInit.renamed, m.dbInit.dirSynced, m.dbInit.sawTmp = false, false, false, false
	case "END":
		if m.cur != nil {
			m.Done = append(m.Done, m.cur)
		}
		m.cur = nil
	case "NOTE":
		if m.cur != nil {
			m.bad("%s", strings.Join(f[3:], " "))
		}
	case "CALL":
		for _, st := range m.files {
			st.writtenThisCall = false
		}
		m.curCall = strings.Join(f[3:], " ")
	case "ACK":
		if m.cur == nil || len(f) < 6 {
			return
		}
		op, res := f[4], f[5]
		m.cur.Acks++
		if len(m.pendUnl) > 0 {
			for u := range m.pendUnl {
				m.bad("R3: %s unlinked during call %s %s without a directory fsync before the call returned", filepath.Base(u), f[3], op)
			}
			m.pendUnl = map[string]bool{}
		}
		if res != "ok" {
			return
		}
		switch op {
		case "A":
			for p, st := range m.files {
				if !isWal(p) {
					continue
				}
				if st.dirty {
					m.bad("R1: StoreLogs (call %s) acknowledged with un-fsynced writes to %s", f[3], filepath.Base(p))
				}
				if st.writtenThisCall && st.needDirSync {
					m.bad("R2: StoreLogs (call %s) acknowledged its first commit into %s without a directory fsync since the file was created", f[3], filepath.Base(p))
				}
			}
		case "S", "U", "D", "open":
			for p, st := range m.files {
				if isDB(p) && st.dirty {
					m.bad("R6: %s (call %s) acknowledged with un-synced writes to wal-meta.db", op, f[3])
				}
			}
			if op == "open" && m.dbInit.sawTmp {
				if !m.dbInit.renamed {
					m.bad("R5: Open created a metadata database without renaming a temporary file into place")
				} else if !m.dbInit.dirSynced {
					m.bad("R5: Open returned without a directory fsync after renaming the metadata database into place")
				}
			}
			if op == "D" {
				for p, st := range m.files {
					if isWal(p) && st.dirty {
						m.bad("R1: DeleteRange (call %s) returned with un-fsynced writes to %s", f[3], filepath.Base(p))
					}
				}
			}
		}
	}
}

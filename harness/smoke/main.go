package main

import (
	"fmt"

	"github.com/hashicorp/raft"
	wal "github.com/hashicorp/raft-wal"
	"verif/simdisk"
)

func main() {
	d := simdisk.NewDisk("t1", simdisk.NewState())
	dir := simdisk.Register(d)
	_ = dir
	_ = wal.ErrClosed
	_ = raft.Log{}
	fmt.Println("ok")
}
